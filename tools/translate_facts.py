#!/usr/bin/env python3
"""Translator for the structural facts C18 rests on: regenerates
coq/Gen/Facts.v from /repo's current source.

What is read (comment-stripped, test modules cut):
  * src/world/**.rs: every `fn` and the struct literals (`Self { … }` /
    `World { … }`) it contains, and which constructor calls which;
  * src/world/mod.rs `from_raw_parts`: is `assert_no_duplicates` called before
    the value is built;
  * src/registry/sealed/assertions.rs: the two `Assertions` impls;
  * src/entities/mod.rs: `Batch::new` asserts `check_len` before
    `new_unchecked`, and `new_unchecked` is `unsafe`;
  * src/entities/sealed/length.rs: the `Length` impl bodies.

Each fact is a boolean (or a small list) computed from the source; the Coq
model of the constructors is *parameterised by these facts*, so if one flips the
theorem C18 no longer type-checks."""
import json
import os
import re
import sys

sys.path.insert(0, os.path.dirname(os.path.abspath(__file__)))
from translate import ParseFailure, read, strip_comments, cut_tests, impl_blocks, REPO  # noqa: E402


def fn_bodies(src):
    """-> list of (qualifiers, name, body) for every fn item (nested fns included separately)."""
    out = []
    for m in re.finditer(r"((?:pub(?:\([a-z]+\))?\s+)?(?:const\s+)?(?:unsafe\s+)?)fn\s+(\w+)", src):
        i = m.end()
        # find the opening brace of the body (skip generics / args / where)
        depth = 0
        j = i
        while j < len(src):
            c = src[j]
            if c in "(<[":
                depth += 1
            elif c in ")>]":
                # `->` contains '>' : do not count it
                if not (c == ">" and src[j - 1] == "-"):
                    depth -= 1
            elif c == ";" and depth <= 0:
                j = -1
                break
            elif c == "{" and depth <= 0:
                break
            j += 1
        if j < 0 or j >= len(src):
            continue
        d = 0
        k = j
        while k < len(src):
            if src[k] == "{":
                d += 1
            elif src[k] == "}":
                d -= 1
                if d == 0:
                    break
            k += 1
        out.append((m.group(1).strip(), m.group(2), src[j + 1:k]))
    return out


def norm(s):
    return re.sub(r"\s+", "", s)


def world_files():
    d = os.path.join(REPO, "src", "world")
    out = []
    for root, _, files in os.walk(d):
        for f in sorted(files):
            if f.endswith(".rs"):
                out.append(os.path.relpath(os.path.join(root, f), REPO))
    return sorted(out)


def facts():
    f = {}
    # ---- who builds a World value
    sites = []
    calls = {}
    for rel in world_files():
        src = read(rel)
        for quals, name, body in fn_bodies(src):
            # struct literals of the world type: `Self {` / `World {` / `World::<..> {` followed by a field name
            for m in re.finditer(r"\b(Self|World(?:::<[^{}]*>)?)\s*\{\s*(\w+)\s*[,:]", body):
                if m.group(2) in ("archetypes", "entity_allocator", "len", "resources"):
                    sites.append((rel, name))
            calls[(rel, name)] = body
    site_names = sorted({n for _, n in sites})
    f["literal_sites"] = site_names
    # exactly: the internal constructor and Clone::clone
    f["only_from_raw_parts_and_clone_build"] = site_names == ["clone", "from_raw_parts"]

    def body_of(rel, name):
        for (r, n), b in calls.items():
            if r == rel and n == name:
                return b
        raise ParseFailure("%s::%s" % (rel, name))

    frp = body_of("src/world/mod.rs", "from_raw_parts")
    i_assert = frp.find("assert_no_duplicates")
    i_build = re.search(r"\bSelf\s*\{", frp)
    f["from_raw_parts_asserts_first"] = i_assert >= 0 and i_build is not None and i_assert < i_build.start() \
        and "Registry::assert_no_duplicates(" in norm(frp)
    # the set handed to the assertion starts empty
    f["assert_starts_from_empty_set"] = "HashSet::with_capacity_and_hasher(" in norm(frp) or "HashSet::with_hasher(" in norm(frp)
    f["new_calls_with_resources"] = "Self::with_resources(" in norm(body_of("src/world/mod.rs", "new"))
    f["with_resources_calls_from_raw_parts"] = "Self::from_raw_parts(" in norm(body_of("src/world/mod.rs", "with_resources"))
    d = norm(body_of("src/world/impl_default.rs", "default"))
    f["default_calls_checked_ctor"] = "Self::with_resources(" in d or "Self::new(" in d
    de = norm(body_of("src/world/impl_serde.rs", "visit_seq"))
    f["deserialize_calls_from_raw_parts"] = "World::from_raw_parts(" in de or "Self::Value::from_raw_parts(" in de
    # ---- Assertions impls
    a = read("src/registry/sealed/assertions.rs")
    bodies = [norm(b) for q, n, b in fn_bodies(a) if n == "assert_no_duplicates"]
    if len(bodies) != 2:
        raise ParseFailure("assertions.rs: expected two impls")
    f["assert_null_is_noop"] = "" in bodies
    f["assert_cons_inserts_then_recurses"] = any(
        b == "assert!(components.insert(TypeId::of::<C>()));R::assert_no_duplicates(components);" for b in bodies)
    # ---- Batch
    e = read("src/entities/mod.rs")
    fns = fn_bodies(e)
    new = [(q, b) for q, n, b in fns if n == "new"]
    unchecked = [(q, b) for q, n, b in fns if n == "new_unchecked"]
    if not new or not unchecked:
        raise ParseFailure("entities/mod.rs: Batch::new / new_unchecked")
    nb = norm(new[0][1])
    f["batch_new_asserts_check_len_first"] = nb.startswith("assert!(entities.check_len());") and "new_unchecked(entities)" in nb
    # every function that writes a Batch literal, other than through Batch::new, is `unsafe`
    lit = [(q, n) for q, n, b in fns if re.search(r"\bSelf\s*\{\s*(len\b|entities\s*,\s*len\b)", b) or re.search(r"\bBatch\s*\{\s*(len\b|entities\s*,\s*len\b)", b)]
    f["batch_new_unchecked_is_unsafe"] = bool(lit) and all("unsafe" in q for q, _ in lit) and all("unsafe" in q for q, _ in unchecked)
    f["batch_len_is_first_column"] = "len:entities.component_len()," in norm(unchecked[0][1])
    f["batch_literal_sites"] = sorted(set(n for _, n in lit))
    f["only_new_unchecked_builds_batch"] = "new_unchecked" in f["batch_literal_sites"] and \
        set(f["batch_literal_sites"]) <= {"new_unchecked", "new_unchecked_with_len"}
    # a batch without columns carries its number of rows (finding F5): the constructor taking the length exists, the
    # macro arms without a column to read the length off pass the number of rows written, World::extend passes the
    # batch's length on to the canonical batch and Archetype::extend uses it
    with_len = [norm(b) for q, n, b in fns if n == "new_unchecked_with_len" and "unsafe" in q]
    wm = norm(strip_comments(read("src/world/mod.rs")))
    am = norm(strip_comments(read("src/archetype/mod.rs")))
    mac = norm(strip_comments(e))
    f["batch_carries_row_count"] = (
        len(with_len) == 1 and with_len[0] == "Self{entities,len}"
        and "(();$n:expr)=>{{letlen:usize=$n;unsafe{$crate::entities::Batch::new_unchecked_with_len($crate::entities::Null,len)}}};" in mac
        and "letcolumns=$crate::entities!(@transpose[]$(($($components),*)),+);letlen=<[()]>::len(&[$($crate::entities!(@unit$($components),*)),+]);unsafe{$crate::entities::Batch::new_unchecked_with_len(columns,len)}" in mac
        and "(@unit$($components:expr),*)=>{()};" in mac
        and "letlength=entities.len();" in wm
        and "entities::Batch::new_unchecked_with_len(Registry::canonical(entities.entities),length)" in wm
        and "letcomponent_len=entities.len();" in am and "entities.entities.component_len()" not in am)
    # ---- Length impls
    l = read("src/entities/sealed/length.rs")
    lf = [(n, norm(b)) for q, n, b in fn_bodies(l)]
    f["len_null"] = ("component_len", "0") in lf and ("check_len", "true") in lf and ("check_len_against", "true") in lf
    f["len_cons"] = (("component_len", "self.0.len()") in lf
                     and ("check_len", "self.1.check_len_against(self.component_len())") in lf
                     and ("check_len_against", "self.component_len()==len&&self.1.check_len_against(len)") in lf)
    # ---- thread crossing: the where-clauses of the Send/Sync impls
    from translate import impl_blocks

    def where_of(rel, trait, ty):
        src = read(rel)
        for h, b in impl_blocks(src):
            if re.search(r"\b%s\s+for\s+%s\b" % (trait, ty), h):
                return norm(h)
        raise ParseFailure("%s: impl %s for %s" % (rel, trait, ty))
    ws = where_of("src/world/impl_send.rs", "Send", "World")
    f["world_send_needs_components_send"] = "Registry:registry::Registry+Send" in ws and "Resources:Send" in ws
    wy = where_of("src/world/impl_sync.rs", "Sync", "World")
    f["world_sync_needs_components_sync"] = "Registry:registry::Registry+Sync" in wy and "Resources:Sync" in wy
    it = where_of("src/query/result/iter.rs", "Send", "Iter")
    f["iter_send_needs_views_send"] = bool(re.search(r"Views:[^,{]*\+Send", it))
    en = where_of("src/query/entries.rs", "Send", "Entries")
    f["entries_send_needs_views_send"] = bool(re.search(r"Views:[^,{]*Send", en))
    pv = norm(read("src/query/view/par/mod.rs"))
    f["parview_ref_needs_sync"] = ("ParView<'a>for&'aComponentwhereComponent:component::Component+Sync" in pv
                                   and "ParView<'a>forOption<&'aComponent>whereComponent:component::Component+Sync" in pv)
    f["parview_mut_needs_send"] = ("ParView<'a>for&'amutComponentwhereComponent:component::Component+Send" in pv
                                   and "ParView<'a>forOption<&'amutComponent>whereComponent:component::Component+Send" in pv)
    f["parviews_need_send"] = "pubtraitParViews<'a>:ParViewsSeal<'a>+Send" in pv and "pubtraitParView<'a>:ParViewSeal<'a>+Send" in pv
    # ---- run_schedule hands the system value and all of its views to the pool's threads: the Task impls
    tsrc = read("src/system/schedule/task/sealed.rs")
    for key, ty, sysvar, systrait in (("system", "System<S>", "S", "system::System"), ("parsystem", "ParSystem<P>", "P", "system::ParSystem")):
        hs = [norm(h) for h, b in impl_blocks(tsrc) if re.search(r"\bTask<[^{]*>\s*for\s+%s" % re.escape(ty), h, re.S)]
        if len(hs) != 1:
            raise ParseFailure("task/sealed.rs: impl Task for %s" % ty)
        h = hs[0]
        w = h[h.find("where"):]
        f["task_%s_self_send" % key] = ("%s:%s+Send" % (sysvar, systrait)) in w
        f["task_%s_views_send" % key] = ("%s::Views<'a>:Send" % sysvar) in w
        f["task_%s_res_send" % key] = ("%s::ResourceViews<'a>:Send" % sysvar) in w
        k0 = w.find("%s::EntryViews<'a>:" % sysvar)
        bound = ""
        if k0 >= 0:
            d_, k1 = 0, k0 + len("%s::EntryViews<'a>:" % sysvar)
            while k1 < len(w) and not (w[k1] in ",{" and d_ == 0):
                d_ += {"<": 1, ">": -1}.get(w[k1], 0)
                k1 += 1
            bound = w[k0:k1]
        f["task_%s_entry_send" % key] = bound.endswith("+Send") or "+Send+" in bound
    # references are views of component types: &C is Send iff C: Sync, &mut C is Send iff C: Send (std)
    # ---- what the result of a query borrows: the receiver (then a second call is a borrow error) or the world
    def sig(rel, fn_name, nth=0):
        src = read(rel)
        ms = list(re.finditer(r"pub\s+fn\s+%s\b" % fn_name, src))
        if len(ms) <= nth:
            raise ParseFailure("%s::%s" % (rel, fn_name))
        i = ms[nth].start()
        j = src.find("{", i)
        return norm(src[i:j])
    eq = sig("src/world/entry.rs", "query")
    m = re.search(r"&'(\w+)mutself", eq)
    f["world_entry_query_borrows_receiver"] = bool(m) and ("view::Views<'%s>" % m.group(1)) in eq
    nq = sig("src/query/entries.rs", "query")
    m = re.search(r"&'(\w+)mutself", nq)
    f["entries_entry_query_borrows_receiver"] = bool(m) and ("view::Views<'%s>" % m.group(1)) in nq
    # the `Disjoint` bound between a query's views and its entry views, on every public way to a query result
    dj = []
    for fn_ in ("query", "par_query", "run_system", "run_par_system"):
        sg = sig("src/world/mod.rs", fn_)
        dj.append("DisjointIndices" in sg and re.search(r"view::Disjoint<(Views|System::Views<'a>|ParSystem::Views<'a>),Registry,DisjointIndices>", sg) is not None)
    tk = norm(strip_comments(read("src/system/schedule/task/sealed.rs")))
    dj.append("S::EntryViews<'a>:view::Disjoint<S::Views<'a>,R,DisjointIndices>" in tk)
    dj.append("P::EntryViews<'a>:view::Disjoint<P::Views<'a>,R,DisjointIndices>" in tk)
    f["entry_views_disjoint_bound_everywhere"] = all(dj)
    # what `Disjoint` is made of (query/view/disjoint.rs): each side's MUTABLY viewed components are taken out of the
    # registry (`MutableInverse`), and the other side's views must all be found in what is left.  Every head of a view
    # list has one impl; the three heads that borrow nothing mutably pass the registry on to the tail unchanged, the
    # two mutable ones pass on the remainder after `Get<Component, Index>` — and every one of them goes on into the tail.
    dsrc = norm(strip_comments(read("src/query/view/disjoint.rs").split("#[cfg(test)]")[0]))
    keep = "typeResult=<ViewsasMutableInverse<Registry,Indices>>::Result;"
    take = "typeResult=<ViewsasMutableInverse<<RegistryasGet<Component,Index>>::Remainder,Indices>>::Result;"
    heads = {"(&Component,Views)": keep, "(Option<&Component>,Views)": keep, "(entity::Identifier,Views)": keep,
             "(&mutComponent,Views)": take, "(Option<&mutComponent>,Views)": take}
    impls = re.findall(r"impl<[^{]*?MutableInverse<Registry,[^{]*?>for(\([^{]*?\)|view::Null)(?:where[^{]*?)?\{([^}]*)\}", dsrc)
    found = {h: b for h, b in impls}
    mi = (set(found) == set(heads) | {"view::Null"} and all(found[h] == b for h, b in heads.items())
          and found.get("view::Null") == "typeResult=Registry;")
    sealed = ("OtherViews:view::Views<'a>+MutableInverse<Registry,InverseIndices>,OtherViews::Result:ContainsViews<'a,Views,Indices>,"
              "Views:view::Views<'a>+MutableInverse<Registry,OppositeInverseIndices>,Views::Result:ContainsViews<'a,OtherViews,OppositeIndices>,")
    f["disjoint_takes_out_exactly_the_mutable_views"] = bool(mi and sealed in dsrc)
    wq = sig("src/world/mod.rs", "query")
    m = re.search(r"&'(\w+)mutself", wq)
    f["world_query_borrows_receiver"] = bool(m) and ("result::Iter<'%s," % m.group(1)) in wq and ("view::Views<'%s>" % m.group(1)) in wq
    vr = sig("src/world/mod.rs", "view_resources")
    m = re.search(r"&'(\w+)mutself", vr)
    f["view_resources_borrows_receiver"] = bool(m) and ("ContainsViews<'%s," % m.group(1)) in vr
    gm = sig("src/world/mod.rs", "get_mut")
    f["get_mut_borrows_receiver"] = "(&mutself)->&mutResource" in gm
    # ---- raw-parts write-back after every capacity-changing call
    sites = writeback_sites()
    f["wb_sites"] = sites
    for cls in ("push", "buffer_push", "extend", "reserve", "shrink", "other"):
        mine = [s_ for s_ in sites if s_["class"] == cls]
        if not mine:
            raise ParseFailure("no write-back site of class %s found" % cls)
        f["wb_" + cls] = all(s_["written_back"] for s_ in mine)
    f.update(de_row_facts())
    f.update(order_facts())
    f.update(macro_facts())
    f.update(iter_facts())
    f.update(resolve_facts())
    adv = advance_facts()
    f["views_consume_one_column_per_present_component"] = adv["views_consume_one_column_per_present_component"]
    f["advance_sites"] = adv["advance_sites"]
    return f


def emit(f):
    def b(x):
        return "true" if x else "false"
    o = ["(** @generated by tools/translate_facts.py from /repo/src — do not edit.",
         "    Structural facts about how World and Batch values can be obtained. *)",
         "From Coq Require Import List String.", "Import ListNotations.", "Open Scope string_scope.", ""]
    for k in ["only_from_raw_parts_and_clone_build", "from_raw_parts_asserts_first", "assert_starts_from_empty_set",
              "new_calls_with_resources", "with_resources_calls_from_raw_parts", "default_calls_checked_ctor",
              "deserialize_calls_from_raw_parts", "assert_null_is_noop", "assert_cons_inserts_then_recurses",
              "batch_new_asserts_check_len_first", "batch_new_unchecked_is_unsafe", "batch_len_is_first_column",
              "only_new_unchecked_builds_batch", "batch_carries_row_count", "entities_macro_unsafe_holds_no_metavariable", "len_null", "len_cons",
              "world_send_needs_components_send", "world_sync_needs_components_sync", "iter_send_needs_views_send",
              "entries_send_needs_views_send", "parview_ref_needs_sync", "parview_mut_needs_send", "parviews_need_send",
              "world_entry_query_borrows_receiver", "entries_entry_query_borrows_receiver", "world_query_borrows_receiver",
              "view_resources_borrows_receiver", "get_mut_borrows_receiver", "entry_views_disjoint_bound_everywhere", "disjoint_takes_out_exactly_the_mutable_views",
              "wb_push", "wb_buffer_push", "wb_extend", "wb_reserve", "wb_shrink", "wb_other",
              "de_row_pops", "de_row_complete_flag",
              "task_system_self_send", "task_system_views_send", "task_system_res_send", "task_system_entry_send",
              "task_parsystem_self_send", "task_parsystem_views_send", "task_parsystem_res_send", "task_parsystem_entry_send",
              "de_column_returns_owned_vec",
              "clear_sets_length_first", "adopt_requires_no_allocation",
              "remove_defers_drops", "remove_decrements_length_first", "remove_frees_identifier_first",
              "entry_remove_drops_last", "clear_subtracts_len_per_archetype", "extend_counts_after_storing", "clear_visits_in_identifier_order",
              "clone_from_hides_rows_first", "clone_from_writes_back_on_unwind", "clone_from_identifier_column_written_back",
              "world_clone_from_forgets_identifiers_first", "world_clone_from_clears_on_unwind",
              "resource_reshape_indices_per_level",
              "entities_macro_evaluates_size_once", "entities_macro_unchecked_arms_known",
              "iter_fold_folds_current_first", "iter_next_drains_current_first",
              "alloc_get_checks_generation", "alloc_is_active_checks_generation", "resolution_sites_use_allocator",
              "views_consume_one_column_per_present_component"]:
        o.append("Definition fact_%s : bool := %s." % (k, b(f[k])))
    o.append("Definition world_literal_sites : list string := [%s]." % "; ".join('"%s"' % s for s in f["literal_sites"]))
    o.append("Definition batch_literal_sites : list string := [%s]." % "; ".join('"%s"' % s for s in f["batch_literal_sites"]))
    o.append("(* the column pointer of the view walks: (file, view kind or None = not viewed, fn, consumes one column iff present) *)")
    o.append("Definition advance_sites : list (string * string * string * bool) := [%s]." % ";\n  ".join(
        '("%s", "%s", "%s", %s)' % (s_["file"], s_["kind"], s_["fn"], b(s_["ok"])) for s_ in f["advance_sites"]))
    o.append("(* every Vec rebuilt from raw parts and then grown/shrunk: (file::fn, calls, pointer and capacity() stored back) *)")
    o.append("Definition writeback_sites : list (string * string * bool) := [%s]." % ";\n  ".join(
        '("%s::%s", "%s", %s)' % (s_["file"], s_["fn"], ",".join(s_["calls"]), b(s_["written_back"])) for s_ in f["wb_sites"]))
    return "\n".join(o) + "\n"


def main():
    out = sys.argv[1]
    try:
        f = facts()
        text = emit(f)
    except ParseFailure as e:
        print("PARSE-FAILED " + json.dumps(str(e)))
        sys.exit(3)
    except Exception as e:  # noqa: BLE001
        print("PARSE-FAILED " + json.dumps("internal: %r" % e))
        sys.exit(3)
    old = open(out).read() if os.path.exists(out) else None
    if old != text:
        with open(out, "w") as fh:
            fh.write(text)
        print("regenerated-changed")
    else:
        print("regenerated-identical")




# ---------------------------------------------------------------------------------------------
# Raw-parts write-back facts (C05): every `Vec` rebuilt from `(ptr, length, cap)` that is then
# grown, shrunk or replaced must have its pointer AND `capacity()` stored back into the raw parts.

GROWING = ("push", "extend", "reserve", "shrink_to_fit", "clone_from", "append", "insert", "extend_from_slice", "resize",
           "reserve_exact", "truncate_and_shrink")
WB_FILES = ["src/entity/sealed/storage.rs", "src/entities/sealed/storage.rs", "src/registry/sealed/storage.rs",
            "src/archetype/mod.rs", "src/registry/clone/sealed.rs", "src/registry/serde/de/sealed.rs",
            "src/archetype/impl_serde.rs", "src/archetype/impl_clone.rs"]
WB_CLASS = {  # (file suffix, fn) -> operation class of the heap model
    ("entity/sealed/storage.rs", "push_components"): "push", ("archetype/mod.rs", "push"): "push",
    ("archetype/mod.rs", "push_from_buffer_and_component"): "buffer_push", ("archetype/mod.rs", "push_from_buffer_skipping_component"): "buffer_push",
    ("registry/sealed/storage.rs", "push_components_from_buffer_and_component"): "buffer_push",
    ("registry/sealed/storage.rs", "push_components_from_buffer_skipping_component"): "buffer_push",
    ("entities/sealed/storage.rs", "extend_components"): "extend", ("archetype/mod.rs", "extend"): "extend",
    ("entity/sealed/storage.rs", "reserve_components"): "reserve", ("archetype/mod.rs", "reserve"): "reserve",
    ("registry/sealed/storage.rs", "shrink_components_to_fit"): "shrink", ("archetype/mod.rs", "shrink_to_fit"): "shrink",
}


def writeback_sites():
    sites = []
    for rel in WB_FILES:
        try:
            src = read(rel)
        except ParseFailure:
            continue
        for quals, name, body in fn_bodies(src):
            b = body
            for m in re.finditer(r"let\s+mut\s+(\w+)\s*=\s*ManuallyDrop::new\(", b):
                v = m.group(1)
                rest = b[m.end():]
                # what the Vec was rebuilt from: the first `X.0` / `X.1` after from_raw_parts
                fr = re.search(r"from_raw_parts(?:::<[^>]*>)?\s*\(\s*([\w\.]+)\.0", rest[:900])
                if not fr:
                    # a fresh Vec or one handed in by the caller: `ManuallyDrop::new(self.0)` / Vec::new()
                    src_x = None
                else:
                    src_x = fr.group(1)
                calls = [c.group(1) for c in re.finditer(r"\b%s\s*\.\s*(\w+)\s*\(" % re.escape(v), rest)]
                grow = [c for c in calls if c in GROWING]
                if not grow:
                    continue
                nb = norm(rest)
                wb = False
                targets = [src_x] if src_x else []
                # adopting a caller's Vec writes into whatever column variable is in scope
                if src_x is None:
                    targets = re.findall(r"\*(\w+)=\(%s\.as_mut_ptr\(\)" % re.escape(v), nb) or re.findall(r"([\w\.]+)=\(%s\.as_mut_ptr\(\)" % re.escape(v), nb)
                for x in targets:
                    xs = re.escape(x)
                    vs_ = re.escape(v)
                    if re.search(r"\*?%s=\(%s\.as_mut_ptr\(\)(?:\.cast::<u8>\(\))?,%s\.capacity\(\),?\)" % (xs, vs_, vs_), nb):
                        wb = True
                    if re.search(r"%s\.0=%s\.as_mut_ptr\(\)(?:\.cast::<u8>\(\))?;%s\.1=%s\.capacity\(\);" % (xs, vs_, xs, vs_), nb):
                        wb = True
                cls = next((c for (suf, fn_), c in WB_CLASS.items() if rel.endswith(suf) and fn_ == name), "other")
                sites.append({"file": rel, "fn": name, "var": v, "from": src_x, "calls": sorted(set(grow)), "written_back": wb, "class": cls})
    return sites


# ---------------------------------------------------------------------------------------------
# Row-wise deserialization cleanup facts (C11/C04, finding F9): what happens to the values
# already stored for a row that is not counted by the caller.

def de_row_facts():
    f = {}
    src = read("src/registry/serde/de/sealed.rs")
    bodies = [norm(b) for q, n, b in fn_bodies(src) if n == "deserialize_components_by_row"]
    pushing = [b for b in bodies if ".push(" in b]
    if len(pushing) != 1:
        raise ParseFailure("deserialize_components_by_row: expected one pushing impl, found %d" % len(pushing))
    b = pushing[0]
    m = re.search(r"letresult=unsafe\{R::deserialize_components_by_row\((\w+),", b)
    ok = False
    if m:
        rest_var = m.group(1)
        tail = b[m.end():]
        pm = re.search(r"ifresult\.is_err\(\)\{ifletSome\((\w+)\)=(\w+)\{(.*?)\}\}result\}?$", tail)
        if pm:
            col, holder, inner = pm.group(1), pm.group(2), pm.group(3)
            ok = (re.search(r"Vec::<C>::from_raw_parts\(%s\.0\.cast::<C>\(\),length\+1,%s\.1,?\)" % (col, col), inner) is not None
                  and re.search(r"drop\(v\.pop\(\)\);?$", inner) is not None
                  and re.search(r"component_column\.0=v\.as_mut_ptr\(\)\.cast::<u8>\(\);component_column\.1=v\.capacity\(\);%s=Some\(component_column\);%s=rest;" % (holder, rest_var), b) is not None)
    f["de_row_pops"] = ok
    n2 = norm(read("src/archetype/impl_serde.rs"))
    sets = re.search(r"R::deserialize_components_by_row\(self\.0\.components,self\.0\.length,&mutseq,self\.0\.identifier\.iter\(\),0,self\.0\.identifier,?\)\}\?;\*self\.0\.complete=true;Ok\(\(\)\)", n2) is not None
    wired = re.search(r"entity_identifiers,components,length,complete,?\}", n2) is not None
    loop = re.search(r"foriin0\.\.self\.0\.length\{letmutrow_complete=false;letresult=seq\.next_element_seed\(unsafe\{DeserializeRow::new\(self\.0\.identifier\.as_ref\(\),&mutentity_identifiers,&mutcomponents,vec_length,&mutrow_complete,?\)\},?\);ifletErr\(error\)=result\{ifrow_complete\{vec_length\+=1;\}", n2) is not None
    f["de_row_complete_flag"] = sets and wired and loop
    # --- column-wise (finding F14): does the column visitor hand back an owned Vec (dropped with a late error
    # of the deserializer) or raw parts (plain data)?
    n3 = norm(strip_comments(read("src/archetype/impl_serde.rs")))
    m = re.search(r"DeserializeSeed<'de>forDeserializeColumn<'de,C>whereC:Component\+Deserialize<'de>,?\{typeValue=([^;]*);", n3)
    if not m:
        raise ParseFailure("archetype/impl_serde.rs: DeserializeColumn::Value")
    owned = m.group(1) == "Vec<C>"
    raw = m.group(1) == "(*mutC,usize)"
    if owned == raw:
        raise ParseFailure("archetype/impl_serde.rs: DeserializeColumn::Value is of neither known form: " + m.group(1))
    if owned:
        # the visitor returns the Vec it filled, and both callers turn what arrived into raw parts
        ok_v = re.search(r"letmutv=Vec::with_capacity\(self\.0\.length\);foriin0\.\.self\.0\.length\{v\.push\(seq\.next_element\(\)\?\.ok_or_else\(\|\|de::Error::invalid_length\(i,&self\)\)\?,?\);\}Ok\(v\)", n3) is not None
        ok_ids = re.search(r"letmutentity_identifiers=ManuallyDrop::new\(seq\.next_element_seed\(DeserializeColumn::new\(self\.0\.length\)\)\?\.ok_or_else\(\|\|de::Error::invalid_length\(0,&self\)\)\?,?\);letentity_identifiers=\(entity_identifiers\.as_mut_ptr\(\),entity_identifiers\.capacity\(\),?\);", n3) is not None
        n4 = norm(strip_comments(src))
        ok_cols = re.search(r"letmutcomponent_column=ManuallyDrop::new\(seq\.next_element_seed\(DeserializeColumn::<C>::new\(length\)\)\?\.ok_or_else\(.*?\)\?\);components\.push\(\(component_column\.as_mut_ptr\(\)\.cast::<u8>\(\),component_column\.capacity\(\),?\)\);", n4) is not None
        if not (ok_v and ok_ids and ok_cols):
            raise ParseFailure("column-wise deserialization: the owned column is not filled / adopted as expected (%s %s %s)" % (ok_v, ok_ids, ok_cols))
    f["de_column_returns_owned_vec"] = owned
    return f


# ---------------------------------------------------------------------------------------------
# Ordering / guard facts of the column store (C17 finding F8b, C05 batch adoption)

def order_facts():
    f = {}
    src = read("src/archetype/mod.rs")
    ok = {}
    for fn in ("clear", "clear_detached"):
        bs = [norm(b) for q, n, b in fn_bodies(src) if n == fn]
        if len(bs) != 1:
            raise ParseFailure("archetype/mod.rs: fn %s" % fn)
        b = bs[0]
        i_len = b.find("letlength=self.length;self.length=0;")
        i_clr = b.find("R::clear_components(&mutself.components,length,self.identifier.iter())")
        ok[fn] = 0 <= i_len < i_clr and "R::clear_components(&mutself.components,self.length" not in b
    # is the archetype's length 0 BEFORE the components of a cleared archetype are dropped?
    f["clear_sets_length_first"] = ok["clear"] and ok["clear_detached"]
    # a caller's Vec is adopted as a column only if the column is empty AND owns no allocation
    e = read("src/entities/sealed/storage.rs")
    bs = [norm(b) for q, n, b in fn_bodies(e) if n == "extend_components" and ".extend(" in b]
    if len(bs) != 1:
        raise ParseFailure("entities/sealed/storage.rs: extend_components")
    f["adopt_requires_no_allocation"] = bool(re.search(
        r"iflength==0&&component_column\.1==0\{letmutv=ManuallyDrop::new\(self\.0\);\*component_column=\(v\.as_mut_ptr\(\)\.cast::<u8>\(\),v\.capacity\(\)\);\}else\{",
        bs[0]))
    # --- removal (finding F8a): the row leaves every column, the shared length, the identifier column and the
    # allocator before any component's Drop can run
    st = read("src/registry/sealed/storage.rs")
    bs = [norm(b) for q, n, b in fn_bodies(st) if n == "remove_component_row" and "swap_remove" in b]
    if len(bs) != 1:
        raise ParseFailure("registry/sealed/storage.rs: remove_component_row")
    b = bs[0]
    i_take = b.find("letremoved=v.swap_remove(index);")
    i_some = b.find("Some(removed)}else{None};")
    i_rec = b.find("R::remove_component_row(index,components,length,identifier_iter)")
    i_drop = b.find("drop(removed);")
    f["remove_defers_drops"] = (b.startswith("letremoved=if") or "letremoved=if" in b[:200]) and 0 <= i_take < i_some < i_rec < i_drop \
        and b.count("swap_remove(") == 1
    bs = [norm(b) for q, n, b in fn_bodies(src) if n == "remove_row_unchecked"]
    if len(bs) != 1:
        raise ParseFailure("archetype/mod.rs: remove_row_unchecked")
    b = bs[0]
    i_ids = b.find("entity_identifiers.swap_remove(index);")
    i_len = b.find("letlength=self.length;self.length-=1;")
    i_rem = b.find("R::remove_component_row(index,&self.components,length,self.identifier.iter())")
    f["remove_decrements_length_first"] = 0 <= i_ids < i_len < i_rem and "R::remove_component_row(index,&self.components,self.length" not in b
    w = read("src/world/mod.rs")
    bs = [norm(b) for q, n, b in fn_bodies(w) if n == "remove" and "remove_row_unchecked" in b]
    if len(bs) != 1:
        raise ParseFailure("world/mod.rs: remove")
    b = bs[0]
    i_free = b.find("self.entity_allocator.free_unchecked(entity_identifier);")
    i_wlen = b.find("self.len-=1;")
    i_row = b.find(".remove_row_unchecked(location.index,&mutself.entity_allocator)")
    f["remove_frees_identifier_first"] = 0 <= i_free < i_wlen < i_row
    # --- Entry::remove: the detached component is dropped after the row has its new home and the location is updated
    en = read("src/world/entry.rs")
    bs = [norm(b) for q, n, b in fn_bodies(en) if n == "remove" and "push_from_buffer_skipping_component" in b]
    if len(bs) != 1:
        raise ParseFailure("world/entry.rs: Entry::remove")
    b = bs[0]
    i_push = b.find("archetype.push_from_buffer_skipping_component::<Component>(")
    i_loc = b.find(".modify_location_unchecked(entity_identifier,location);")
    i_self = b.find("self.location=location;")
    i_drop = b.find("drop(unsafe{current_component_bytes.as_ptr().add(offset)")
    f["entry_remove_drops_last"] = 0 <= i_push < i_loc < i_self < i_drop and b.count("drop(unsafe{") == 1
    # --- len() (findings F13, F16): the count is taken down archetype by archetype while clearing, and a batch is
    # counted once it is stored
    at = read("src/archetypes/mod.rs")
    bs = [norm(b) for q, n, b in fn_bodies(at) if n == "clear"]
    wsrc = read("src/world/mod.rs")
    wc_ = [norm(b) for q, n, b in fn_bodies(wsrc) if n == "clear"]
    sorted_first = "letmutarchetypes=self.iter_mut().collect::<Vec<_>>();archetypes.sort_unstable_by(|a,b|{unsafe{a.identifier().as_slice().cmp(b.identifier().as_slice())}});"
    # (finding F6) the archetypes are cleared in the order of their identifiers' bytes, not in table order
    f["clear_visits_in_identifier_order"] = len(bs) == 1 and bs[0].startswith(sorted_first) and \
        bs[0][len(sorted_first):] == "forarchetypeinarchetypes{*len-=archetype.len();unsafe{archetype.clear(entity_allocator)};}"
    f["clear_subtracts_len_per_archetype"] = (
        len(bs) == 1 and bs[0] in ("forarchetypeinself.iter_mut(){*len-=archetype.len();unsafe{archetype.clear(entity_allocator)};}",
                                  sorted_first + "forarchetypeinarchetypes{*len-=archetype.len();unsafe{archetype.clear(entity_allocator)};}")
        and len(wc_) == 1 and "self.archetypes.clear(&mutself.entity_allocator,&mutself.len);" in wc_[0] and "self.len=0" not in wc_[0])
    we = [norm(b) for q, n, b in fn_bodies(wsrc) if n == "extend" and "canonical_entities" in b]
    if len(we) != 1:
        raise ParseFailure("world/mod.rs: extend")
    i_store = we[0].find(".extend(canonical_entities,&mutself.entity_allocator)")
    i_count = we[0].find("self.len+=length;")
    f["extend_counts_after_storing"] = 0 <= i_store < i_count and we[0].count("self.len+=") == 1
    # --- clone_from (findings F8c, F11)
    ac = read("src/archetype/impl_clone.rs")
    bs = [norm(b) for q, n, b in fn_bodies(ac) if n == "clone_from"]
    if len(bs) != 1:
        raise ParseFailure("archetype/impl_clone.rs: clone_from")
    b = bs[0]
    i_hide = b.find("letlength=self.length;self.length=0;")
    i_cols = b.find("R::clone_from_components(&mutself.components,length,&source.components,source.length,self.identifier.iter(),?)".replace(",?)", ",)"))
    if i_cols < 0:
        i_cols = b.find("R::clone_from_components(&mutself.components,length,&source.components,source.length,self.identifier.iter())")
    i_set = b.find("self.length=source.length;")
    f["clone_from_hides_rows_first"] = 0 <= i_hide < i_cols < i_set
    f["clone_from_identifier_column_written_back"] = re.search(
        r"\(\*entity_identifiers\)\.clone_from\(&\(\*source_entity_identifiers\)\);self\.entity_identifiers=\(entity_identifiers\.as_mut_ptr\(\),entity_identifiers\.capacity\(\),?\);",
        b) is not None and b.find("self.entity_identifiers=(") < i_hide
    rc = norm(strip_comments(read("src/registry/clone/sealed.rs")))
    guard = "impl<C>DropforColumnVec<'_,C>{fndrop(&mutself){*self.column=(self.vec.as_mut_ptr().cast::<u8>(),self.vec.capacity());}}" in rc
    site = re.search(r"letmutcomponent_vec_a=ColumnVec\{column:component_column_a,vec:vec_a,?\};", rc) is not None \
        and "(*component_vec_a.vec).clone_from(&(*component_vec_b));drop(component_vec_a);" in rc \
        and re.search(r"letvec_a=ManuallyDrop::new\(unsafe\{Vec::from_raw_parts\(component_column_a\.0\.cast::<C>\(\),length_a,component_column_a\.1,?\)\}\);", rc) is not None
    f["clone_from_writes_back_on_unwind"] = guard and site
    wc = norm(strip_comments(read("src/world/impl_clone.rs")))
    bs = [norm(b) for q, n, b in fn_bodies(strip_comments(read("src/world/impl_clone.rs"))) if n == "clone_from"]
    if len(bs) != 1:
        raise ParseFailure("world/impl_clone.rs: clone_from")
    b = bs[0]
    i_fgt = b.find("self.entity_allocator.clear();self.len=0;")
    i_grd = b.find("letarchetypes=ClearOnUnwind(&mutself.archetypes);")
    i_cln = b.find("archetypes.0.clone_from(&source.archetypes)")
    i_mf = b.find("mem::forget(archetypes);")
    i_al = b.find("self.entity_allocator.clone_from(&source.entity_allocator,&identifier_map)")
    f["world_clone_from_forgets_identifiers_first"] = 0 <= i_fgt < i_cln and "self.archetypes.clone_from(" not in b
    f["world_clone_from_clears_on_unwind"] = 0 <= i_grd < i_cln < i_mf < i_al and \
        re.search(r"DropforClearOnUnwind<'_,Registry>whereRegistry:registry::Registry,?\{fndrop\(&mutself\)\{forarchetypeinself\.0\.iter_mut\(\)\{archetype\.clear_detached\(\);\}\}\}", wc) is not None
    # --- resource views (finding F15): is the witness of each level's reshape its own, or tied to the tail's?
    rv = norm(strip_comments(read("src/resource/contains/views.rs")))
    per_level = "typeCanonical;" in rv and "(Views::View,Resources::Canonical):Reshape<Views,ReshapeIndex>," in rv \
        and "Reshape<Views,(ReshapeIndex,ReshapeIndices)>" not in rv and "typeCanonical:" not in rv
    shared = "typeCanonical:Reshape<Views,ReshapeIndices>;" in rv \
        and "(Views::View,Resources::Canonical):Reshape<Views,(ReshapeIndex,ReshapeIndices)>," in rv
    if per_level == shared:
        raise ParseFailure("resource/contains/views.rs: the reshape bound of the Contained step is of neither known form")
    f["resource_reshape_indices_per_level"] = per_level
    al = read("src/entity/allocator/mod.rs")
    bs = [norm(b) for q, n, b in fn_bodies(al) if n == "clear"]
    f["world_clone_from_forgets_identifiers_first"] = f["world_clone_from_forgets_identifiers_first"] and \
        len(bs) == 1 and bs[0].replace(" ", "") in ("self.slots.clear();self.free.clear();", "self.free.clear();self.slots.clear();")
    return f


# ---------------------------------------------------------------------------------------------
# The `entities!` macro calls `Batch::new_unchecked` in safe-looking code (finding F10)

def macro_facts():
    f = {}
    src = strip_comments(read("src/entities/mod.rs"))
    m = re.search(r"macro_rules!\s*entities\s*\{", src)
    if not m:
        raise ParseFailure("entities/mod.rs: macro_rules! entities")
    d, k = 1, m.end()
    while d and k < len(src):
        d += {"{": 1, "}": -1}.get(src[k], 0)
        k += 1
    body = norm(src[m.end():k - 1])
    # arms: `(pattern) => { expansion };`
    arms = [a for a in body.split("};") if "=>" in a]
    unchecked = [a for a in arms if "new_unchecked(" in a]
    cloned = [a for a in unchecked if a.startswith("(($component:expr$(,$components:expr)*$(,)?);$n:expr)=>")]
    ok = False
    if len(cloned) == 1:
        exp = cloned[0].split("=>", 1)[1]
        ok = (exp.count("$n") == 1 and re.search(r"letn(:usize)?=\$n;", exp) is not None
              and "vec![$component;n]" in exp and re.search(r"entities!\(@cloned\(\$\(\$components\),\*\);n\)", exp) is not None)
    f["entities_macro_evaluates_size_once"] = ok
    # the other arms that reach new_unchecked: the transposition (rectangular by the macro pattern itself) and the two
    # component-less ones (no column at all)
    # the other arms that build a batch: the transposition (rectangular by the macro pattern itself) and the two
    # component-less ones (no column at all); since the repair of F5 the transposing arm and `((); n)` pass the
    # number of rows along (new_unchecked_with_len)
    with_len = [a for a in arms if "new_unchecked_with_len(" in a]
    others = [a for a in unchecked if a not in cloned] + with_len
    f["entities_macro_unchecked_arms_known"] = (len(cloned) == 1 and len(others) == 3
        and sum(1 for a in others if "@transpose[]" in a) == 1
        and sum(1 for a in others if "new_unchecked($crate::entities::Null)" in a or "new_unchecked_with_len($crate::entities::Null,len)" in a) == 2)
    # the macro's own `unsafe` blocks hold none of the caller's expressions (finding F17): no metavariable other than
    # `$crate` occurs inside any `unsafe { .. }` of the macro body
    blocks = []
    for mm in re.finditer(r"unsafe\{", body):
        d2, k2 = 1, mm.end()
        while d2 and k2 < len(body):
            d2 += {"{": 1, "}": -1}.get(body[k2], 0)
            k2 += 1
        blocks.append(body[mm.end():k2 - 1])
    f["entities_macro_unsafe_holds_no_metavariable"] = bool(blocks) and all(
        not re.search(r"\$(?!crate\b)", b_) for b_ in blocks)
    return f


# ---------------------------------------------------------------------------------------------
# The result iterator of World::query (C03): what `next` and `fold` do with the archetype being drained

def iter_facts():
    f = {}
    src = read("src/query/result/iter.rs")
    bodies = {n: norm(b) for q, n, b in fn_bodies(src) if n in ("next", "fold")}
    if "next" not in bodies or "fold" not in bodies:
        raise ParseFailure("query/result/iter.rs: next/fold")
    fo = bodies["fold"]
    i1 = fo.find("ifletSome(results)=self.current_results_iter{init=results.fold(init,&mutfold);}")
    i2 = fo.find("self.archetypes_iter.fold(init,")
    f["iter_fold_folds_current_first"] = 0 <= i1 < i2
    nx = bodies["next"]
    j1 = nx.find("ifletSome(refmutresults)=self.current_results_iter{ifletresult@Some(_)=results.next(){returnresult;}}")
    j2 = nx.find("self.archetypes_iter.find(")
    f["iter_next_drains_current_first"] = 0 <= j1 < j2 and nx.startswith("loop{")
    return f


# ---------------------------------------------------------------------------------------------
# Where identifiers are resolved (C02): the allocator's accessors compare the generation, and every site uses them

def resolve_facts():
    f = {}
    a = read("src/entity/allocator/mod.rs")
    bodies = {n: norm(b) for q, n, b in fn_bodies(a) if n in ("get", "is_active")}
    f["alloc_get_checks_generation"] = bodies.get("get") == "letslot=self.slots.get(identifier.index)?;ifslot.generation==identifier.generation{slot.location}else{None}"
    f["alloc_is_active_checks_generation"] = bodies.get("is_active") == "ifletSome(slot)=self.slots.get(identifier.index){ifslot.is_active()&&slot.generation==identifier.generation{returntrue;}}false"
    w = read("src/world/mod.rs")
    wb = {n: norm(b) for q, n, b in fn_bodies(w) if n in ("contains", "entry", "remove")}
    e = read("src/query/entries.rs")
    eb = [norm(b) for q, n, b in fn_bodies(e) if n == "entry"]
    ok = (wb.get("contains", "") == "self.entity_allocator.is_active(entity_identifier)"
          and "self.entity_allocator.get(entity_identifier)" in wb.get("entry", "")
          and wb.get("remove", "").startswith("ifletSome(location)=self.entity_allocator.get(entity_identifier){")
          and len(eb) == 1 and eb[0].startswith("unsafe{&*self.world}.entity_allocator.get(entity_identifier)")
          and ".slots" not in eb[0] and ".slots" not in wb.get("entry", "") and ".slots" not in wb.get("remove", ""))
    f["resolution_sites_use_allocator"] = ok
    return f


# ---------------------------------------------------------------------------------------------
# The column pointer of the view walks (C03, C09)

def advance_facts():
    """registry/sealed/view.rs and par_view.rs: every impl consumes exactly one column for a component the archetype has
    (viewed or not), and none for one it lacks — per impl and function."""
    sites = []
    for rel, trait, fns in (("src/registry/sealed/view.rs", "CanonicalViews", ("view", "view_one", "view_one_maybe_uninit")),
                            ("src/registry/sealed/par_view.rs", "CanonicalParViews", ("par_view",))):
        src = read(rel)
        for h, b in impl_blocks(src):
            hn = norm(h)
            m = re.match(r"impl<'a,C,P,R,V>%s<'a,(\(.+?,V\)|V),\((.+?),P\)>for\(C,R\)" % trait, hn)
            if not m:
                continue
            cont = m.group(2)
            kind = {"&'aContained": "KRef", "&'amutContained": "KMut", "Option<&'aContained>": "KOptRef",
                    "Option<&'amutContained>": "KOptMut", "NotContained": "None"}.get(cont)
            if kind is None:
                raise ParseFailure("%s: unknown containment %s" % (rel, cont))
            for q, n, body in fn_bodies(b):
                if n not in fns:
                    continue
                bn = norm(body)
                rec = "R::%s(" % n
                if kind in ("KRef", "KMut") and n != "view_one_maybe_uninit":
                    ok = ("columns.get_unchecked(0)" in bn and re.search(re.escape(rec) + r"(index,)?columns\.get_unchecked\(1\.\.\),length,archetype_identifier,?\)", bn) is not None
                          and "columns=" not in bn)
                elif kind in ("KRef", "KMut", "KOptRef", "KOptMut"):
                    ok = (bn.count("{letcolumn=columns.get_unchecked(0);columns=columns.get_unchecked(1..);column}") == 1
                          and re.search(re.escape(rec) + r"(index,)?columns,length,archetype_identifier,?\)", bn) is not None
                          and bn.count("columns=") == 1)
                else:
                    ok = (re.search(r"ifunsafe\{archetype_identifier\.next\(\)\.unwrap_unchecked\(\)\}\{unsafe\{columns=columns\.get_unchecked\(1\.\.\);\}\}unsafe\{"
                                    + re.escape(rec) + r"(index,)?columns,length,archetype_identifier,?\)\}", bn) is not None and bn.count("columns=") == 1)
                sites.append({"file": rel, "kind": kind, "fn": n, "ok": ok})
    want = 5 * 3 + 5
    if len(sites) != want:
        raise ParseFailure("view impls: expected %d (impl, fn) sites, found %d" % (want, len(sites)))
    return {"views_consume_one_column_per_present_component": all(s_["ok"] for s_ in sites), "advance_sites": sites}


if __name__ == "__main__":
    main()
