//! Probes of `World::len()` after a *caught* panic that the world-history harness cannot build
//! (C13: "at every moment ... len() equals the number of stored entities").  One line per probe:
//! `<name> len=<len()> stored=<rows found by a query> panicked=<bool>`.
use brood::{
    entities::{Batch, Null},
    entity,
    query::{filter, Views},
    Query, Registry, World,
};
use std::panic::{catch_unwind, AssertUnwindSafe};

type Reg = Registry!((), u32);

fn stored(world: &mut World<Reg>) -> usize {
    world.query(Query::<Views!(entity::Identifier), filter::None>::new()).iter.count()
}

fn main() {
    std::panic::set_hook(Box::new(|_| {}));
    // extend with a column of 2^60 zero-sized components (built in O(1) by safe code, wrapped by the checked
    // constructor): storing 2^60 identifiers is impossible, the call panics with `capacity overflow`
    {
        let mut world = World::<Reg>::new();
        world.insert(entity!(7u32));
        let column: Vec<()> = (Box::new([(); 1usize << 60]) as Box<[()]>).into_vec();
        let batch = Batch::new((column, Null));
        let r = catch_unwind(AssertUnwindSafe(|| {
            world.extend(batch);
        }));
        let s = stored(&mut world);
        println!("extend-huge-zst-batch len={} stored={} panicked={}", world.len(), s, r.is_err());
    }
    // the same after some history (a freed slot to reuse first)
    {
        let mut world = World::<Reg>::new();
        let a = world.insert(entity!(1u32));
        world.insert(entity!(2u32));
        world.remove(a);
        let column: Vec<()> = (Box::new([(); 1usize << 61]) as Box<[()]>).into_vec();
        let batch = Batch::new((column, Null));
        let r = catch_unwind(AssertUnwindSafe(|| {
            world.extend(batch);
        }));
        let s = stored(&mut world);
        println!("extend-huge-zst-batch-after-remove len={} stored={} panicked={}", world.len(), s, r.is_err());
        // the freed slot is still there to be reused
        let next = world.insert(entity!(3u32));
        let s = stored(&mut world);
        println!("insert-after-failed-extend len={} stored={} panicked=false reused={}", world.len(), s,
                 format!("{:?}", next).contains("index: 0"));
    }
}
