//! Support code for the generated schedule family: plain components and
//! resources, the access log, and the schedule runner's bookkeeping.
use brood::entity;
use std::sync::atomic::{AtomicBool, Ordering};
use std::sync::Mutex;

#[derive(Clone, Debug, PartialEq)]
pub struct S0(pub u64);
#[derive(Clone, Debug, PartialEq)]
pub struct S1(pub u64);
#[derive(Clone, Debug, PartialEq)]
pub struct S2(pub u64);
#[derive(Clone, Debug, PartialEq)]
pub struct S3(pub u64);
#[derive(Clone, Debug, PartialEq)]
pub struct RA(pub u64);
#[derive(Clone, Debug, PartialEq)]
pub struct RB(pub u64);

pub type RS = brood::Registry!(S0, S1, S2, S3);
pub type ResS = brood::Resources!(RA, RB);
pub type WS = brood::World<RS, ResS>;

/// (task, address, is_write)
pub static LOG: Mutex<Vec<(u32, usize, bool)>> = Mutex::new(Vec::new());
pub static IDS: Mutex<Vec<entity::Identifier>> = Mutex::new(Vec::new());
static REFERENCE: AtomicBool = AtomicBool::new(false);

pub fn set_reference_mode(on: bool) {
    REFERENCE.store(on, Ordering::SeqCst);
}

#[inline]
pub fn log(task: u32, addr: usize, write: bool) {
    if !REFERENCE.load(Ordering::Relaxed) {
        LOG.lock().unwrap().push((task, addr, write));
    }
}

pub fn ids() -> Vec<entity::Identifier> {
    IDS.lock().unwrap().clone()
}

#[inline]
pub fn mix(v: u64) -> u64 {
    (v ^ 0x9e37_79b9_7f4a_7c15).wrapping_mul(0x1000_0000_01b3).rotate_left(17) | 1
}

pub fn begin(task: u32) {
    if !REFERENCE.load(Ordering::Relaxed) {
        brood::verif::rayon_shim::mark(task as u64 * 2);
    }
}

pub fn end(task: u32) {
    if !REFERENCE.load(Ordering::Relaxed) {
        brood::verif::rayon_shim::mark(task as u64 * 2 + 1);
    }
}

pub trait Acc {
    fn acc(&self) -> u64;
}

/// Accumulators of every task stored in a schedule hlist.
pub trait Accs {
    fn accs(&self) -> Vec<u64>;
}

impl Accs for brood::system::schedule::task::Null {
    fn accs(&self) -> Vec<u64> {
        Vec::new()
    }
}

impl<T: Acc, U: Accs> Accs for (brood::system::schedule::task::System<T>, U) {
    fn accs(&self) -> Vec<u64> {
        let mut v = vec![(self.0).0.acc()];
        v.extend(self.1.accs());
        v
    }
}

impl<T: Acc, U: Accs> Accs for (brood::system::schedule::task::ParSystem<T>, U) {
    fn accs(&self) -> Vec<u64> {
        let mut v = vec![(self.0).0.acc()];
        v.extend(self.1.accs());
        v
    }
}
