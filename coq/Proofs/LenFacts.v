(** len() equals the number of stored entities also after a caught panic (C13; findings F13, F16). *)
From Brood Require Import Base LenM.

Lemma total_app a b : total (a ++ b) = total a + total b.
Proof. unfold total. induction a as [|x a IH]; cbn [app fold_right]; [reflexivity|]. rewrite IH. lia. Qed.

Lemma total_zeros {A} (l : list A) : total (map (fun _ => 0) l) = 0.
Proof. unfold total. induction l as [|x l IH]; cbn [map fold_right]; [reflexivity|]. rewrite IH. reflexivity. Qed.

Theorem clear_len_consistent ns len fault : len = total ns ->
  let '(ns', len') := clear_len_gen true ns len fault in len' = total ns'.
Proof.
  intros ->. unfold clear_len_gen. destruct fault as [k|].
  - rewrite total_app, total_zeros. rewrite <- (firstn_skipn (S k) ns) at 1. rewrite total_app. lia.
  - rewrite total_zeros. lia.
Qed.

Lemma len_facts : fact_clear_subtracts_len_per_archetype = true /\ fact_extend_counts_after_storing = true.
Proof. split; reflexivity. Qed.

Theorem clear_len_consistent_src ns len fault : len = total ns ->
  let '(ns', len') := clear_len ns len fault in len' = total ns'.
Proof. unfold clear_len. destruct len_facts as [-> _]. apply clear_len_consistent. Qed.

(** set to 0 at the very end (before the repair of F13): a panic in the second of three archetypes *)
Lemma clear_len_stale : let '(ns', len') := clear_len_gen false [3; 2; 1] 6 (Some 1) in len' = 6 /\ total ns' = 1.
Proof. vm_compute. auto. Qed.

Theorem extend_len_consistent len n panics :
  let '(stored, len') := extend_len_gen true len n panics in len' = len + stored.
Proof. unfold extend_len_gen. destruct panics; cbn; lia. Qed.

Theorem extend_len_consistent_src len n panics :
  let '(stored, len') := extend_len len n panics in len' = len + stored.
Proof. unfold extend_len. destruct len_facts as [_ ->]. apply extend_len_consistent. Qed.

(** counted before it is stored (F16) *)
Lemma extend_len_stale : extend_len_gen false 1 5 true = (0, 6).
Proof. reflexivity. Qed.
