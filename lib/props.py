"""Per-property checks."""
import json
import os
import sys
import time
from collections import Counter

import common
from common import (EVIDENCE, REPLAYS, TRUSTED_BASE, VERIF, Infra, check_props, load_known, write_evidence,
                    write_replay)

# --------------------------------------------------------------------- world-history family

WH = {
    # pid: (views compared with the model, compare ret, compare events, op filter, description)
    "C01": (["content"], True, False, None),
    "C03": (["content"], True, False, lambda op: op.split()[0] in ("qry", "eqry", "nqry", "qwr", "wrt")),
    "C02": (["content", "alloc"], True, False, None),
    "C04": ([], False, True, None),
    "C05": (["content", "alloc", "struct"], True, False, None),
    "C17": ([], False, False, lambda op: False),
    "C06": (["content", "alloc", "res"], True, False, None),
    "C09": (["content"], True, False, lambda op: op.split()[0] in ("pqry", "pqwr")),
    "C10": (["content", "alloc", "res", "struct"], True, True, None),
    "C11": (["content", "alloc", "res"], True, False, lambda op: op.split()[0] == "cde"),
    "C13": (["content", "alloc", "struct"], True, False, None),
    "C15": (["res"], False, False, None),
    "C16": ([], True, False, lambda op: op.startswith("eq ")),
}

WH_RULE = ("histories generated from one SplitMix64 state (VERIF_SEED): insert/extend in two textual component "
           "orders, remove/Entry::add/Entry::remove/write on live, stale and never-issued identifiers, clear, "
           "shrink_to_fit, reserve, resource writes, clone, clone_from, serde round trips (both encodings), ==, "
           "world drop, on up to 3 worlds over a 5-component registry (8-byte, zero-sized, 32-aligned, "
           "heap-owning, 4-byte). A case is non-trivial if it hits at least one corner from {slot reuse, "
           "swap-remove of a non-last row, stale-identifier remove, batch </=/> free list, shape change, shrink, "
           "clone, clone_from, serde}; distinct = distinct op sequences among those.")


def regen_all():
    """Every translator, before anything is built: the model the theorems and the extracted driver are about is the
    one regenerated from /repo's current source."""
    return {"Tables": regen("translate.py", "Tables"), "Facts": regen("translate_facts.py", "Facts"),
            "Bytes": regen("translate_bytes.py", "Bytes"), "Subset": regen("translate_subset.py", "Subset")}


def wh_check(pid, tier, seed, t0):
    import wh
    tstatus = regen_all()
    proof = check_props(pid)
    eng = wh.engine(seed, tier)
    views, with_ret, with_ev, opf = WH[pid]
    known = [k for k in load_known() if k["property"] == pid and k["status"] == "known"]
    known_classes = {k.get("class") for k in known}
    diverged = []
    fault_mismatch = []
    viol = []
    known_hits = Counter()
    nontrivial = set()
    corners = Counter()
    steps_total = 0
    # traces are matched by case number, not by position: a shard whose harness process died has fewer cases
    model_by_id = {mc_["id"]: mc_ for mc_ in eng["model"]}
    impl_by_id = {ic_["id"]: ic_ for ic_ in eng["impl"]}
    for ic, orc in zip(eng["impl"], eng["oracle"]):
        idx = ic["id"]
        steps_total += len(ic["steps"])
        mc = model_by_id.get(idx, {"steps": []})
        d = wh.first_divergence(ic, mc, views, with_ret, with_ev, opf)
        if d is not None:
            diverged.append((idx, d))
        if pid == "C17" and wh.is_fault_case(ic):
            mm = wh.fault_prediction_mismatch(ic, mc)
            if mm:
                fault_mismatch.append((idx, mm))
        for (si, p, msg) in orc["fails"]:
            if p == pid or p == "*":
                viol.append((idx, si, msg))
                break
        for (si, cls) in orc["known"]:
            if cls in known_classes:
                known_hits[cls] += 1
        if orc["corners"]:
            nontrivial.add(tuple(eng["cases"][idx]) if idx < len(eng["cases"]) else idx)
        for c in orc["corners"]:
            corners[c] += 1
    crashed = [s for s in eng["shards"] if s["rc"] != 0]
    # a harness process that died inside the library (abort on a violated unchecked precondition, segfault,
    # double free caught by the system allocator): the operation it was executing is the failing input
    for sh_ in crashed:
        try:
            tr = wh.parse_trace(sh_["impl"]) if os.path.exists(sh_["impl"]) else []
            if tr:
                cid = tr[-1]["id"]
                done = len(tr[-1]["steps"])
            else:
                cid, done = sh_["first"], 0
            body = [l for l in eng["cases"][cid] if not l.startswith("%")]
            if done < len(body):
                viol.append((cid, done, "the harness process died (exit status %s: %s) while the library executed `%s`"
                             % (sh_["rc"], (sh_["err"] or "").strip().split("\n")[-1][:120], body[done])))
        except Exception:  # noqa: BLE001
            pass
    n_impl = len(eng["impl"])
    incomplete = n_impl < len(eng["cases"]) or any(
        len(ic["steps"]) < len([l for l in eng["cases"][ic["id"]] if not l.startswith("%")])
        for ic in eng["impl"] if ic["id"] < len(eng["cases"]))
    rc = 0
    replay_path = None
    if viol:
        idx, si, msg = viol[0]
        ops = eng["cases"][idx]
        small = shrink_wh(ops, pid, msg)
        replay_path = write_replay(pid, seed, {
            "property": pid, "kind": "failing-history", "message": msg, "case_index": idx, "failing_step": si,
            "ops": ops[:si + 2], "shrunk_ops": small,
            "how_to_replay": "./check %s --replay %s" % (pid, os.path.join("replays", "%s-%s.json" % (pid, seed)))})
        print("VIOLATION property=%s replay=%s" % (pid, replay_path))
        print("  " + msg)
        rc = 1
    elif not proof["ok"] or diverged or crashed or incomplete or fault_mismatch:
        what = []
        if fault_mismatch:
            idx, mm = fault_mismatch[0]
            what.append({"correspondence": "cell-level fault model vs ledger of the implementation", "case_index": idx,
                         "message": mm, "ops": eng["cases"][idx], "n": len(fault_mismatch)})
        if not proof["ok"]:
            what.append({"theorem_or_file": proof["failed_theorem"], "log": proof["log"][-1500:]})
        if diverged:
            idx, d = diverged[0]
            what.append({"correspondence": "model vs implementation trace, views=%s" % views, "case_index": idx,
                         "step": d, "ops": eng["cases"][idx][:d + 2],
                         "impl": impl_by_id[idx]["steps"][d]["raw"] if d < len(impl_by_id[idx]["steps"]) else None,
                         "model": model_by_id[idx]["steps"][d]["raw"]
                         if idx in model_by_id and d < len(model_by_id[idx]["steps"]) else None})
        if crashed or incomplete:
            what.append({"harness": "implementation run crashed or produced an incomplete trace",
                         "stderr": [s["err"] for s in crashed][:2]})
        replay_path = write_replay(pid, seed, {"property": pid, "kind": "no-failing-input-found",
                                               "no_longer_checks": what})
        print("VIOLATION property=%s replay=%s no-failing-input-found" % (pid, replay_path))
        rc = 1
    for k in known:
        if known_hits[k["class"]] > 0:
            print("KNOWN-FINDING: property=%s %s (%s; reproduced %d times this run, witness %s)"
                  % (pid, k["what"], k["id"], known_hits[k["class"]], k.get("witness", "-")))
    samples = [{"case": i, "ops": eng["cases"][i][:12]} for i in range(min(2, len(eng["cases"])))]
    cov = {
        "obligations": proof["obligations"], "discharged": proof["discharged"],
        "checker_cmd": "make -C coq Props/%s.vo && coqc -Q coq Brood coq/Props/%s.v (Print Assumptions parsed)" % (pid, pid),
        "trusted_base": TRUSTED_BASE,
        "theorems": proof["theorems"], "print_assumptions_closed": proof.get("closed", 0), "axioms": proof["axioms"],
        "evaluations": len(eng["cases"]), "distinct_nontrivial": len(nontrivial), "rule": WH_RULE,
        "samples": samples, "traces_validated_against_impl": n_impl - len(diverged),
        "steps_compared": steps_total, "corpus_cases": eng["ncorpus"], "op_kinds": eng["opkinds"],
        "history_length": {"min": min(eng["lens"] or [0]), "max": max(eng["lens"] or [0]),
                           "mean": round(sum(eng["lens"]) / max(1, len(eng["lens"])), 1)},
        "corners_hit_cases": dict(corners), "views_compared": views, "engine_cached": eng["cached"],
        "known_finding_hits": dict(known_hits), "translator": tstatus,
        "explanation": "theorems over the Gallina model (coq/Props/%s.v) + op-by-op correspondence of the "
                       "extracted model with the real library + spec-side oracles on the implementation trace" % pid,
    }
    write_evidence(pid, tier, seed, "proof", cov,
                   ["model tied to /repo by differential execution only (hand-written model)",
                    "archetype table order and Vec capacities are oracle inputs (clear order read from the implementation)"],
                   time.time() - t0, 1 if rc else 0)
    return rc


def _kind(m):
    import re
    return re.sub(r"[0-9]+", "#", m or "")[:48]


def shrink_wh(ops, pid, msg, budget=120):
    """Delta-debug the op list against the implementation-side oracle for `pid`."""
    import wh
    workdir = os.path.join(common.BUILD, "run", "shrink-%s" % pid)

    def fails(cand):
        sh = wh.run_cases([cand], workdir, shards=1, tag="s")
        if not sh or not os.path.exists(sh[0]["impl"]):
            return False
        impl = wh.parse_trace(sh[0]["impl"])
        if not impl:
            return False
        # the same kind of failure (message with the numbers blanked, first 48 characters), so that the history is not
        # shrunk into a different failure (e.g. an ill-formed history on which the harness itself panics)
        return any(p in (pid, "*") and _kind(m_) == _kind(msg) for (_, p, m_) in wh.safe_oracle_case(impl[0])["fails"])

    cur = list(ops)
    try:
        if not fails(cur):
            return cur
        n = 2
        runs = 0
        while len(cur) >= 2 and runs < budget:
            chunk = max(1, len(cur) // n)
            reduced = False
            for i in range(0, len(cur), chunk):
                cand = cur[:i] + cur[i + chunk:]
                body = [l for l in cand if not l.startswith("%")]
                if not body or not body[0].startswith("new"):
                    continue
                if cur[0].startswith("%") and not cand[0].startswith("%"):
                    cand = [cur[0]] + cand
                runs += 1
                if fails(cand):
                    cur = cand
                    n = max(n - 1, 2)
                    reduced = True
                    break
            if not reduced:
                if chunk == 1:
                    break
                n = min(len(cur), n * 2)
    except Exception:
        pass
    return cur


def replay_wh(pid, path):
    import wh
    r = json.load(open(path))
    ops = r.get("shrunk_ops") or r.get("ops")
    if not ops:
        print("replay file names no history: %s" % json.dumps(r.get("no_longer_checks"))[:2000])
        return 1
    common.build_extract()
    err = common.build_harness(["wh", "wh9", "wh16"])
    if err:
        raise Infra(err[-2000:])
    sh = wh.run_cases([ops], os.path.join(common.BUILD, "run", "replay-%s" % pid), shards=1, tag="r")
    impl = wh.parse_trace(sh[0]["impl"])
    o = wh.safe_oracle_case(impl[0])
    bad = [(i, p, m) for (i, p, m) in o["fails"] if p in (pid, "*")]
    for l in ops:
        print("  " + l)
    if bad:
        print("VIOLATION property=%s replay=%s" % (pid, path))
        print("  step %d: %s" % (bad[0][0], bad[0][2]))
        return 1
    print("replay passes")
    return 0


# --------------------------------------------------------------------- schedule family

SCHED_RULE = ("a fixed family of %d schedule types (hand-written corner schedules: F4 witness shapes, dynamic-only "
              "independence through filters, three stages, entry views, resources only, readers only, ParSystems; plus "
              "seeded random tasks over 4 components and 2 resources with 0-3 views of the 4 kinds + Identifier, filters "
              "from Has/Not/And/Or, entry views, resource views) x worlds (the world without archetypes, fixed and random "
              "sets of 1-4 archetypes incl. empty ones) x execution orders through hook H2 (first-closure-first, "
              "second-first, seeded bit-string orders, real rayon on pools of 1 and 4 [thorough: 2,16]). Non-trivial: "
              "the run has at least two tasks under a common join or at least two stages; distinct = distinct "
              "(schedule, world, order) triples among those.")


def sched_check(pid, tier, seed, t0):
    import sched
    eng = sched.engine(seed, tier)
    proof = check_props(pid)
    fam, cases, obs = eng["fam"], eng["cases"], eng["obs"]
    viol = []
    diverged = []
    nontrivial = set()
    compared = 0
    for i, (c, ob) in enumerate(zip(cases, obs)):
        for (p, msg) in sched.oracle(c, ob, fam[c["k"]]):
            if p == pid or p == "*":
                viol.append((i, msg))
                break
        if ob is None or "error" in ob:
            continue
        seq, _ = sched.tree_of_events(ob["events"])
        if sched.par_pairs(seq) or len(seq) > 1:
            nontrivial.add((c["k"], c["spec"], c["mode"], c["order"], c["pool"]))
        # the decision tables were changed in the source: a pair of tasks that may overlap on this world according
        # to the committed tables (the ones the theorems were proved about) but is now run one after the other is
        # a schedule silently serialised (C12)
        ref_tables = eng.get("ref_model") or (eng["model"] if str(eng.get("translator", "")).startswith("parse-failed") else None)
        if pid == "C12" and ref_tables:
            rm = ref_tables.get((c["k"], tuple(sorted(ob["shapes"]))))
            if rm is not None:
                have = {frozenset(p_) for p_ in sched.par_pairs(seq)}
                want = {frozenset(p_) for p_ in sched.par_pairs(rm[1])}
                lost = sorted(tuple(sorted(x)) for x in (want - have))
                if lost and not any(i == vi for vi, _ in viol):
                    viol.append((i, "tasks %s are allowed to overlap on this world by the decision tables the theorems were proved "
                                    "about (coq/Gen/Tables.snapshot) but the implementation, whose tables now differ, ran them one "
                                    "after the other: %s instead of %s" % (lost[:3], sched.show(seq), sched.show(rm[1]))))
        if eng["model"] is not None:
            q = (c["k"], tuple(sorted(ob["shapes"])))
            m = eng["model"].get(q)
            compared += 1
            if m is None:
                diverged.append((i, "model rejects the schedule (run_schedule = None)"))
            elif m[1] != seq:
                diverged.append((i, "fork/join term differs: implementation %s, model %s (stages %s)"
                                 % (sched.show(seq), sched.show(m[1]), m[0])))
    rc = 0
    infra = []
    if eng["build_err"] or eng["missing"]:
        infra.append("schedule harness did not build: missing %s\n%s" % (eng["missing"], (eng["build_err"] or "")[-1500:]))
    if viol:
        i, msg = viol[0]
        c = cases[i]
        path = write_replay(pid, seed, {"property": pid, "kind": "failing-schedule-run", "message": msg,
                                        "schedule_index": c["k"], "schedule": fam[c["k"]], "world": c["spec"],
                                        "mode": c["mode"], "order": c["order"], "pool": c["pool"],
                                        "observation": {k: v for k, v in (obs[i] or {}).items() if k != "access"},
                                        "how_to_replay": "./check %s --replay replays/%s-%s.json" % (pid, pid, seed)})
        print("VIOLATION property=%s replay=%s" % (pid, path))
        print("  " + msg)
        rc = 1
    elif not proof["ok"] or diverged or eng["model_err"] or infra:
        what = []
        if not proof["ok"]:
            what.append({"theorem_or_file": proof["failed_theorem"], "log": proof["log"][-1500:]})
        if eng["model_err"]:
            what.append({"model": "the Gallina model could not be evaluated on the regenerated tables", "log": eng["model_err"][-1500:]})
        if diverged:
            i, msg = diverged[0]
            c = cases[i]
            what.append({"correspondence": "fork/join term of the run vs run_schedule of the model", "message": msg,
                         "schedule_index": c["k"], "schedule": fam[c["k"]], "world": c["spec"], "mode": c["mode"],
                         "order": c["order"], "n_diverged": len(diverged)})
        if infra:
            what.append({"harness": infra[0]})
        if infra and proof["ok"] and not diverged and not eng["model_err"]:
            raise Infra(infra[0])
        path = write_replay(pid, seed, {"property": pid, "kind": "no-failing-input-found", "no_longer_checks": what,
                                        "translator": eng["translator"]})
        print("VIOLATION property=%s replay=%s no-failing-input-found" % (pid, path))
        rc = 1
    samples = []
    for i in range(0, len(cases), max(1, len(cases) // 3)):
        c, ob = cases[i], obs[i]
        if ob and "error" not in ob:
            samples.append({"schedule": fam[c["k"]], "world": c["spec"], "mode": c["mode"], "order": c["order"],
                            "pool": c["pool"], "fork_join_term": sched.show(sched.tree_of_events(ob["events"])[0])})
    cov = {
        "obligations": proof["obligations"], "discharged": proof["discharged"],
        "checker_cmd": "tools/translate.py -> coq/Gen/Tables.v; make -C coq Props/%s.vo && coqc -Q coq Brood coq/Props/%s.v (Print Assumptions parsed)" % (pid, pid),
        "trusted_base": TRUSTED_BASE, "theorems": proof["theorems"], "print_assumptions_closed": proof.get("closed", 0),
        "axioms": proof["axioms"], "translator": eng["translator"],
        "evaluations": len(cases), "distinct_nontrivial": len(nontrivial), "rule": SCHED_RULE % len(fam),
        "samples": samples[:3], "traces_validated_against_impl": compared - len(diverged),
        "model_queries": len(eng["queries"]), "schedules": len(fam),
        "modes": dict(Counter("mode%d/pool%d" % (c["mode"], c["pool"]) for c in cases)),
        "engine_cached": eng["cached"],
        "explanation": "theorems over the Gallina scheduling model (coq/Props/%s.v; tables regenerated from the Rust source) + "
                       "fork/join term of every real run (hook H2) compared with the model + spec-side oracles (sequential "
                       "reference, recorded reachable addresses of join-parallel tasks, greedy grouping) on the implementation" % pid,
    }
    write_evidence(pid, tier, seed, "proof", cov,
                   ["tasks are atomic in the model: instruction-level interleavings inside overlapping tasks are not exhibited (DRF => SC assumed once C08 holds)",
                    "rayon::join contract: both closures run exactly once and join returns after both",
                    "user systems confined to what their query result hands them (C14)"],
                   time.time() - t0, 1 if rc else 0)
    return rc


def replay_sched(pid, path):
    import sched
    r = json.load(open(path))
    if "schedule_index" not in r:
        print("replay file names no run: %s" % json.dumps(r.get("no_longer_checks"))[:2000])
        return 1
    fam, err, missing = sched.build()
    c = {"k": r["schedule_index"], "mode": r["mode"], "order": r["order"], "pool": r["pool"], "spec": r["world"]}
    ob = sched.run_impl([c])[0]
    bad = [(p, m) for (p, m) in sched.oracle(c, ob, fam[c["k"]]) if p in (pid, "*")]
    print("schedule %d on world '%s' mode %d order %d pool %d" % (c["k"], c["spec"], c["mode"], c["order"], c["pool"]))
    if bad:
        print("VIOLATION property=%s replay=%s" % (pid, path))
        print("  " + bad[0][1])
        return 1
    print("replay passes")
    return 0


# --------------------------------------------------------------------- constructors (C18)

def regen(tool, name):
    """Run a translator into coq/Gen/<name>.v; fall back to the committed snapshot when the source
    can no longer be parsed (a harmless rewrite): the behavioural correspondence then decides alone."""
    out = os.path.join(common.COQ, "Gen", name + ".v")
    snap = os.path.join(common.COQ, "Gen", name + ".snapshot")
    p = common.run([sys.executable, os.path.join(VERIF, "tools", tool), out], check=False)
    last = p.stdout.strip().split("\n")[-1] if p.stdout.strip() else "parse-failed"
    if p.returncode != 0:
        if os.path.exists(snap) and (not os.path.exists(out) or open(out).read() != open(snap).read()):
            open(out, "w").write(open(snap).read())
        return "parse-failed: " + last
    if os.path.exists(snap) and open(snap).read() != open(out).read():
        return "regenerated-changed"
    return "regenerated-identical"


def ctor_check(pid, tier, seed, t0):
    import re
    tstatus = regen("translate_facts.py", "Facts")
    proof = check_props(pid)
    binname = "ctor" if tier == "quick" else "ctor_full"
    common.run([sys.executable, os.path.join(VERIF, "tools", "gen_ctor.py"), os.path.join(VERIF, "harness", "src", "bin")])
    err = common.build_harness([binname, "ctor"])
    if err:
        raise Infra("constructor harness does not build:\n" + err[-2000:])
    lines = []
    store_lines = []
    crashed = []
    for b in sorted({binname, "ctor"}):
        p = common.run([os.path.join(common.TARGET, "debug", b)], check=False, timeout=600)
        out = [l for l in p.stdout.split("\n") if l.strip()]
        if p.returncode != 0:
            # the process died inside the library: the case that had begun and never reported is the culprit
            begun = [l for l in out if l.startswith("begin ")]
            crashed.append((b, p.returncode, begun[-1] if begun else "(before the first case)"))
        lines += [l for l in out if not l.startswith("begin ") and l.split()[0] in ("world", "batch", "macro") and
                  l.split()[-1] in ("ok", "panic") or (l.split()[0] in ("batch", "macro") and " ok " in l)]
        store_lines += [l for l in out if l.startswith("store ")]
    lines = sorted(set(lines))
    cases = []
    for l in lines:
        t = l.split()
        if t[0] == "world":
            n = int(t[1])
            reg = list(range(n))
            if t[2] != "-":
                reg[int(t[3])] = reg[int(t[2])]
            cases.append({"kind": "world", "line": l, "ctor": t[4], "reg": reg, "verdict": t[5]})
        elif t[0] == "macro":
            cases.append({"kind": "macro", "line": l, "k": int(t[1]), "evals": [int(x) for x in t[2].split(",")],
                          "verdict": t[3], "counts": [int(x) for x in t[4:]]})
        else:
            cols = [] if t[2] == "-" else [int(x) for x in t[2].split(",")]
            cases.append({"kind": "batch", "line": l, "cols": cols, "verdict": t[3], "counts": [int(x) for x in t[4:]]})
    # model, evaluated inside Coq
    CT = {"new": "CNew", "with_resources": "CWithResources", "default": "CDefault", "deserialize": "CDeserialize"}
    wd = os.path.join(common.BUILD, "run", "ctor-%s" % tier)
    os.makedirs(wd, exist_ok=True)
    with open(os.path.join(wd, "cases.v"), "w") as f:
        f.write("From Brood Require Import Base Facts Ctor.\n")
        f.write("Definition w (k : ctor) (r : list nat) : nat := match construct k r with Returned => 1 | Panicked => 0 end.\n")
        f.write("Definition b (c : list nat) : nat := match batch_new c with Some l => 2 + l | None => 0 end.\n")
        f.write("Definition m (k : nat) (e : list nat) : nat := match batch_new (macro_cloned k e) with Some l => 2 + l | None => 0 end.\n")
        f.write("Eval vm_compute in [%s].\n" % "; ".join(
            ("w %s [%s]" % (CT[c["ctor"]], "; ".join(map(str, c["reg"])))) if c["kind"] == "world"
            else ("m %d [%s]" % (c["k"], "; ".join(map(str, c["evals"])))) if c["kind"] == "macro"
            else ("b [%s]" % "; ".join(map(str, c["cols"]))) for c in cases))
    model_err = None
    model = None
    ok, log = common.build_coq(["Model/Ctor.vo"])
    if not ok:
        model_err = log[-2000:]
    else:
        with common.Lock("coq"):
            p = common.run(["timeout", "600", "coqc", "-noglob", "-Q", common.COQ, "Brood", os.path.join(wd, "cases.v")],
                           cwd=wd, check=False)
        m = re.search(r"=\s*\[([^\]]*)\]", p.stdout)
        if p.returncode != 0 or not m:
            model_err = p.stdout[-2000:]
        else:
            model = [int(x) for x in re.findall(r"\d+", m.group(1))]
            if len(model) != len(cases):
                model_err = "model output count mismatch"
                model = None
    viol, diverged = [], []
    for b, rcode, last in crashed:
        cols = last.split()[-1] if last.startswith("begin batch") else "?"
        cases.append({"kind": "crash", "line": "%s exited with status %s while running: %s" % (b, rcode, last)})
        if last.startswith("begin macro"):
            viol.append((len(cases) - 1, "the constructor harness died (status %s) inside the library while running '%s': "
                                         "entities!((c1, .., c%s); n) with a size expression returning %s on successive evaluations built "
                                         "columns of different lengths in safe code" % (rcode, last, last.split()[2], last.split()[3])))
        else:
            viol.append((len(cases) - 1, "the constructor harness died (status %s) inside the library while running '%s': a batch with "
                                         "column lengths %s reached extend" % (rcode, last, cols)))
    for i, c in enumerate(cases):
        if c["kind"] == "crash":
            continue
        if c["kind"] == "world":
            dup = len(set(c["reg"])) != len(c["reg"])
            if dup and c["verdict"] != "panic":
                viol.append((i, "World::%s returned a world for a registry listing component %d twice (positions %s of %d)"
                             % (c["ctor"], [x for x in c["reg"] if c["reg"].count(x) > 1][0],
                                [k for k, x in enumerate(c["reg"]) if c["reg"].count(x) > 1], len(c["reg"]))))
            if not dup and c["verdict"] != "ok":
                viol.append((i, "World::%s panicked for a duplicate-free registry of length %d" % (c["ctor"], len(c["reg"]))))
            if model is not None and (model[i] == 1) != (c["verdict"] == "ok"):
                diverged.append((i, "model says %s" % ("Returned" if model[i] else "Panicked")))
        elif c["kind"] == "macro":
            want = c["evals"][0]
            if c["verdict"] != "ok" or c["counts"] != [want, want, want]:
                viol.append((i, "entities!((c1, .., c%d); n) with n returning %s on successive evaluations: expected %d well-formed rows, "
                                "got %s %s" % (c["k"], c["evals"], want, c["verdict"], c["counts"])))
            if model is not None and model[i] != 2 + want:
                diverged.append((i, "model says %s" % ("ragged" if model[i] == 0 else "len %d" % (model[i] - 2))))
        else:
            ragged = len(set(c["cols"])) > 1
            if ragged and c["verdict"] != "panic":
                viol.append((i, "Batch::new accepted columns of lengths %s; extend stored %s" % (c["cols"], c["counts"])))
            if not ragged:
                want = c["cols"][0] if c["cols"] else 0
                if c["verdict"] != "ok":
                    viol.append((i, "Batch::new panicked on equal column lengths %s" % c["cols"]))
                elif c["counts"] != [want, want, want]:
                    viol.append((i, "batch of %d rows: extend returned/stored %s" % (want, c["counts"])))
            if model is not None:
                mv = model[i]
                if (mv == 0) != (c["verdict"] == "panic") or (mv >= 2 and c["verdict"] == "ok" and c["counts"][0] != mv - 2):
                    diverged.append((i, "model says %s" % ("panic" if mv == 0 else "len %d" % (mv - 2))))
    # "so extend never stores ragged columns": well-formed batches of zero-sized / plain / heap-owning columns
    for l in sorted(set(store_lines)):
        t = l.split()
        kinds_, n_ = t[1], int(t[2])
        cases.append({"kind": "store", "line": l})
        if t[3] != "ok":
            viol.append((len(cases) - 1, "extend of a well-formed batch (%s columns, %d rows) panicked" % (kinds_, n_)))
            continue
        a_, b_, len_, rows_, z_, h_, z2_, h2_ = [int(x) for x in t[4:12]]
        want_z = n_ + 2 if "Z" in kinds_ else 0
        want_h = n_ + 2 if "H" in kinds_ else 0
        if (a_, b_, len_, rows_) != (n_, 2, n_ + 2, n_ + 2) or (z_, h_) != (want_z, want_h) or (z2_, h2_) != (0, 0) or t[12] != "false":
            viol.append((len(cases) - 1, "a well-formed batch (columns %s: Z zero-sized with Drop, D plain, H heap-owning) of %d rows then one of 2 rows: "
                         "extend returned %d and %d identifiers, len() %d, %d rows stored; live values of the zero-sized / heap-owning "
                         "column %d / %d (expected %d / %d), after dropping the world %d / %d, a value dropped twice: %s"
                         % (kinds_, n_, a_, b_, len_, rows_, z_, h_, want_z, want_h, z2_, h2_, t[12])))
    rc = 0
    if viol:
        i, msg = viol[0]
        path = write_replay(pid, seed, {"property": pid, "kind": "failing-constructor-call", "message": msg,
                                        "case": cases[i]["line"], "all": [cases[j]["line"] for j, _ in viol[:20]],
                                        "how_to_replay": "build/target/debug/%s | grep '%s'" % (binname, cases[i]["line"].rsplit(" ", 1)[0])})
        print("VIOLATION property=%s replay=%s" % (pid, path))
        print("  " + msg)
        rc = 1
    elif not proof["ok"] or diverged or model_err:
        what = []
        if not proof["ok"]:
            what.append({"theorem_or_file": proof["failed_theorem"], "log": proof["log"][-1500:], "translator": tstatus})
        if model_err:
            what.append({"model": "Model/Ctor.v could not be evaluated on the regenerated facts", "log": model_err})
        if diverged:
            what.append({"correspondence": "constructor verdicts vs Model/Ctor.v", "first": cases[diverged[0][0]]["line"],
                         "model": diverged[0][1], "n_diverged": len(diverged)})
        path = write_replay(pid, seed, {"property": pid, "kind": "no-failing-input-found", "no_longer_checks": what})
        print("VIOLATION property=%s replay=%s no-failing-input-found" % (pid, path))
        rc = 1
    cases = [c for c in cases if c["kind"] != "crash"] if not crashed else cases
    nw = [c for c in cases if c["kind"] == "world"]
    nb = [c for c in cases if c["kind"] == "batch"]
    cov = {
        "obligations": proof["obligations"], "discharged": proof["discharged"],
        "checker_cmd": "tools/translate_facts.py -> coq/Gen/Facts.v; make -C coq Props/C18.vo && coqc -Q coq Brood coq/Props/C18.v",
        "trusted_base": TRUSTED_BASE + ["tools/translate_facts.py (structural facts about constructors read off the source)"],
        "theorems": proof["theorems"], "print_assumptions_closed": proof.get("closed", 0), "axioms": proof["axioms"],
        "translator": tstatus,
        "evaluations": len(cases),
        "distinct_nontrivial": len({(tuple(c["reg"]), c["ctor"]) for c in nw if len(set(c["reg"])) != len(c["reg"])})
        + len({tuple(c["cols"]) for c in nb if len(c["cols"]) >= 2}),
        "rule": "every registry of length 2..9 with one type duplicated at a pair of positions (quick: all pairs for lengths <= 5, "
                "8 pairs for lengths 8 and 9; thorough: all 120) x {new, with_resources, default, deserialize}, plus the "
                "duplicate-free registry of every length 0..9 as control; every vector of column lengths in {0..3}^k, k = 0..4, "
                "through Batch::new followed by extend. Non-trivial: a duplicated registry x constructor, or a batch of >= 2 columns.",
        "samples": [cases[0]["line"], nw[len(nw) // 2]["line"], nb[len(nb) // 2]["line"]],
        "traces_validated_against_impl": len(cases) - len(diverged),
        "world_constructor_calls": len(nw), "batch_constructor_calls": len(nb), "exhaustive": tier != "quick",
        "explanation": "theorems over Model/Ctor.v, whose control structure is regenerated from the source (Gen/Facts.v); every "
                       "constructor x duplicated registry and every small ragged batch run on the real library and compared with the model",
    }
    write_evidence(pid, tier, seed, "proof", cov,
                   ["TypeId is injective (component types modelled as numbers)",
                    "the structural facts read by tools/translate_facts.py are what the compiler sees (no macro-generated constructors of World/Batch)"],
                   time.time() - t0, 1 if rc else 0)
    return rc


# --------------------------------------------------------------------- compile-time family (C14)

def cfail_coq_term(d):
    def views(vs):
        return "[" + "; ".join("VIdent" if v == "id" else "VComp %s %d" % (v[0], v[1]) for v in vs) + "]"
    b = lambda x: "true" if x else "false"  # noqa: E731
    if d[0] == "query":
        return "CQuery 2 %s %s" % (views(d[1]), views(d[2]))
    if d[0] == "resviews":
        return "CResViews 2 [%s]" % "; ".join("(%s, %d)" % (b(m), i) for m, i in d[1])
    if d[0] == "outside":
        return "COutside"
    if d[0] == "inside":
        return "CInside"
    if d[0] == "thread":
        apis = {"world_move": "TWorldMove", "world_share": "TWorldShare", "iter_ref": "TViewRef", "iter_mut": "TViewMut"}
        for par_ in (False, True):
            sfx_ = "_par" if par_ else ""
            apis["task_sys" + sfx_] = "(TTaskSelf %s)" % b(par_)
            for w_, cw_ in (("view", "WViews"), ("res", "WRes"), ("entry", "WEntry")):
                apis["task_%s_ref%s" % (w_, sfx_)] = "(TTaskRef %s %s)" % (b(par_), cw_)
                apis["task_%s_mut%s" % (w_, sfx_)] = "(TTaskMut %s %s)" % (b(par_), cw_)
        return "CThread %s %s %s" % (apis[d[1]], b(d[2]), b(d[3]))
    if d[0] == "overlap":
        return "COverlap %s %s %s" % (d[1], b(d[2]), b(d[3]))
    if d[0] == "shared":
        return "CSharedTwice"
    if d[0] == "sequential":
        return "CSequential"
    return "CDisjoint"


def cfail_check(pid, tier, seed, t0):
    import re
    sys.path.insert(0, os.path.join(VERIF, "tools"))
    import gen_cfail
    tstatus = regen("translate_facts.py", "Facts")
    tstatus2 = regen("translate.py", "Tables")
    proof = check_props(pid)
    out = os.path.join(common.BUILD, "cfail")
    fam = gen_cfail.emit(out)
    verdicts = {}
    infra = None
    with common.Lock("cargo-cfail"):
        for crate in ("types", "borrow"):
            d = os.path.join(out, crate)
            lock = os.path.join(d, "Cargo.lock")
            if not os.path.exists(lock):
                open(lock, "w").write(open(os.path.join(common.REPO, "Cargo.lock")).read())
            e = common.env()
            e["CARGO_TARGET_DIR"] = os.path.join(common.BUILD, "target_cfail")
            e["RUSTFLAGS"] = "-Awarnings"
            p = common.run(["cargo", "check", "--offline", "--message-format=json", "--lib"], cwd=d, check=False, env_=e, timeout=1800)
            errs = []
            saw_result = False
            for line in p.stdout.split("\n"):
                if not line.startswith("{"):
                    continue
                try:
                    m = json.loads(line)
                except ValueError:
                    continue
                if m.get("reason") == "build-finished":
                    saw_result = True
                if m.get("reason") != "compiler-message" or m["message"].get("level") != "error":
                    continue
                tgt = m.get("target", {}).get("name", "")
                if not tgt.startswith("cfail"):
                    infra = "brood itself does not compile: " + m["message"].get("message", "")[:300]
                    continue
                spans = [sp for sp in m["message"].get("spans", []) if sp.get("is_primary")] or m["message"].get("spans", [])
                code = (m["message"].get("code") or {}).get("code")
                for sp in spans[:1]:
                    # a span inside a macro of the library: follow the expansion back to the call site in the program
                    hops = 0
                    while not sp.get("file_name", "").endswith("src/lib.rs") and (sp.get("expansion") or {}).get("span") and hops < 16:
                        sp = sp["expansion"]["span"]
                        hops += 1
                    if not sp.get("file_name", "").endswith("src/lib.rs"):
                        errs.append((-1, code, m["message"]["message"][:160] + " @" + sp.get("file_name", "?")))
                    else:
                        errs.append((sp["line_start"], code, m["message"]["message"][:160]))
            if not saw_result and not errs:
                infra = "cargo check produced no result for %s: %s" % (crate, p.stdout[-800:])
            for pr in fam:
                if pr["crate"] != crate:
                    continue
                mine = [(c, msg) for (ln, c, msg) in errs if pr["first_line"] <= ln <= pr["last_line"]]
                verdicts[pr["name"]] = ("reject", mine) if mine else ("accept", [])
            outside = [(ln, c, msg) for (ln, c, msg) in errs if not any(pr["crate"] == crate and pr["first_line"] <= ln <= pr["last_line"] for pr in fam)]
            if outside:
                infra = "error outside every program in %s: %s" % (crate, outside[:2])
    if infra and proof["ok"]:
        raise Infra(infra)
    # a type error inside the borrow crate hides every borrow-check verdict: the programs there must type-check
    borrow_type_errors = [(n, v) for n, v in verdicts.items()
                          if any(pr["name"] == n and pr["crate"] == "borrow" for pr in fam)
                          and any(c and not c.startswith("E05") and not c.startswith("E07") and c not in ("E0499", "E0502", "E0505", "E0506", "E0597", "E0716") for c, _ in v[1])]
    # model, evaluated in Coq on the regenerated facts/tables
    wd = os.path.join(common.BUILD, "run", "cfail")
    os.makedirs(wd, exist_ok=True)
    with open(os.path.join(wd, "cases.v"), "w") as f:
        f.write("From Brood Require Import Base World Kinds Tables Sched Facts Access.\n")
        f.write("Definition b2n (b : bool) : nat := if b then 1 else 0.\n")
        f.write("Eval vm_compute in [%s].\n" % "; ".join("b2n (accepts (%s))" % cfail_coq_term(pr["desc"]) for pr in fam))
    model, model_err = None, None
    ok, log = common.build_coq(["Model/Access.vo"])
    if not ok:
        model_err = log[-2000:]
    else:
        with common.Lock("coq"):
            p = common.run(["timeout", "600", "coqc", "-noglob", "-Q", common.COQ, "Brood", os.path.join(wd, "cases.v")], cwd=wd, check=False)
        m = re.search(r"=\s*\[([^\]]*)\]", p.stdout)
        if p.returncode != 0 or not m:
            model_err = p.stdout[-2000:]
        else:
            model = [int(x) for x in re.findall(r"\d+", m.group(1))]
            if len(model) != len(fam):
                model, model_err = None, "model output count mismatch"
    known = [k for k in load_known() if k["property"] == pid and k["status"] == "known"]
    known_classes = {k.get("class") for k in known}
    viol, diverged, known_hits = [], [], Counter()
    for i, pr in enumerate(fam):
        got = verdicts.get(pr["name"], ("?", []))[0]
        if got != pr["expect"]:
            if pr.get("known") in known_classes and pr["expect"] == "reject" and got == "accept":
                known_hits[pr["known"]] += 1
            else:
                viol.append((i, "rustc %ss a program the property requires it to %s: %s  [%s]"
                             % (got, pr["expect"], pr["body"], "; ".join("%s %s" % e for e in verdicts.get(pr["name"], ("", []))[1][:2]))))
        if model is not None and (model[i] == 1) != (got == "accept"):
            diverged.append((i, "model accepts=%d, rustc %s" % (model[i], got)))
    rc = 0
    if viol:
        i, msg = viol[0]
        path = write_replay(pid, seed, {"property": pid, "kind": "failing-program", "message": msg, "program": fam[i],
                                        "all": [fam[j]["name"] for j, _ in viol[:30]],
                                        "how_to_replay": "cd build/cfail/%s && cargo check --offline  (function p_%s::f)" % (fam[i]["crate"], fam[i]["name"])})
        print("VIOLATION property=%s replay=%s" % (pid, path))
        print("  " + msg)
        rc = 1
    elif not proof["ok"] or diverged or model_err or borrow_type_errors:
        what = []
        if not proof["ok"]:
            what.append({"theorem_or_file": proof["failed_theorem"], "log": proof["log"][-1500:], "translator": [tstatus, tstatus2]})
        if model_err:
            what.append({"model": "Model/Access.v could not be evaluated on the regenerated facts", "log": model_err})
        if diverged:
            what.append({"correspondence": "rustc verdicts vs accepts of Model/Access.v", "program": fam[diverged[0][0]],
                         "detail": diverged[0][1], "n_diverged": len(diverged)})
        if borrow_type_errors:
            what.append({"family": "programs of the borrow crate no longer type-check", "first": borrow_type_errors[0]})
        path = write_replay(pid, seed, {"property": pid, "kind": "no-failing-input-found", "no_longer_checks": what})
        print("VIOLATION property=%s replay=%s no-failing-input-found" % (pid, path))
        rc = 1
    for k in known:
        if known_hits[k["class"]] > 0:
            print("KNOWN-FINDING: property=%s %s (%s; reproduced %d times this run, witness %s)"
                  % (pid, k["what"], k["id"], known_hits[k["class"]], k.get("witness", "-")))
    codes = Counter(c for v in verdicts.values() for c, _ in v[1])
    cov = {
        "obligations": proof["obligations"], "discharged": proof["discharged"],
        "checker_cmd": "tools/translate_facts.py, tools/translate.py; make -C coq Props/C14.vo && coqc -Q coq Brood coq/Props/C14.v; cargo check --message-format=json on build/cfail/{types,borrow}",
        "trusted_base": TRUSTED_BASE + ["rustc's trait solver and borrow checker are the oracle for the bounds themselves"],
        "theorems": proof["theorems"], "print_assumptions_closed": proof.get("closed", 0), "axioms": proof["axioms"],
        "translator": [tstatus, tstatus2],
        "programs": len(fam), "disagreements_checked": len(diverged),
        "evaluations": len(fam), "distinct_nontrivial": len({pr["body"] for pr in fam if pr["expect"] == "reject"}),
        "rule": "every pair of view kinds on one component inside a query's views (16), between views and entry views (16), inside "
                "entry views (16), each paired with its conflict-free neighbour on two components; every mutability pair on one "
                "resource in view_resources and in a query's resource views; every API with a component/resource outside the "
                "registry; thread-crossing APIs (world moved/shared, result::Iter, Entries, par_query) with a !Send+!Sync and a "
                "Send+!Sync payload and their Send+Sync neighbours; two results of one receiver alive at once for "
                "World::entry, World::query, get_mut/get, view_resources and query::Entries::entry, with sequential neighbours. "
                "Non-trivial: programs the property requires to be rejected.",
        "samples": [fam[0]["body"], fam[len(fam) // 2]["body"], fam[-2]["body"]],
        "traces_validated_against_impl": len(fam) - len(diverged),
        "error_codes": dict(codes), "known_finding_hits": dict(known_hits),
        "explanation": "theorem: whatever the modelled bounds accept is sound (bounds regenerated from the source); every program of the "
                       "generated family compiled by the real rustc (two crates: trait resolution, borrow checking), verdicts compared "
                       "with the property and with the model",
    }
    write_evidence(pid, tier, seed, "proof", cov,
                   ["rustc's trait solver and borrow checker are not modelled: they are the oracle",
                    "&C is Send iff C: Sync and &mut C is Send iff C: Send (std)"],
                   time.time() - t0, 1 if rc else 0)
    return rc


# --------------------------------------------------------------------- dispatch

def c15_sched_part(pid, tier, seed):
    """System resource views (C15): the schedule engine's runs, judged on the resources alone."""
    import sched
    eng = sched.engine(seed, tier)
    fam, cases, obs = eng["fam"], eng["cases"], eng["obs"]
    n = 0
    with_res = 0
    for i, (c, ob) in enumerate(zip(cases, obs)):
        if ob is None:
            continue
        n += 1
        if any(t["res"] for t in fam[c["k"]]):
            with_res += 1
        for (p, msg) in sched.oracle(c, ob, fam[c["k"]]):
            relevant = any(t["res"] for t in fam[c["k"]]) if pid == "C15" else any(t.get("par") for t in fam[c["k"]])
            if p == pid or (p == "*" and relevant):
                if p == "*":
                    msg = ("a schedule whose systems view resources" if pid == "C15" else "a schedule with a parallel system") + \
                          " made the harness die inside the library: " + msg
                path = write_replay(pid, seed, {"property": pid, "kind": "failing-schedule-run", "message": msg,
                                                "schedule_index": c["k"], "schedule": fam[c["k"]], "world": c["spec"],
                                                "mode": c["mode"], "order": c["order"], "pool": c["pool"],
                                                "observation": {k: v for k, v in (ob or {}).items() if k != "access"},
                                                "how_to_replay": "./check %s --replay replays/%s-%s.json" % (pid, pid, seed)})
                print("VIOLATION property=%s replay=%s" % (pid, path))
                print("  " + msg)
                return 1, n, with_res
    return 0, n, with_res


def c15_order_part(pid, seed):
    with common.Lock("small-programs"):
        return _c15_order_part(pid, seed)


def _c15_order_part(pid, seed):
    """Every order in which resource views can be requested (C15): each program of tools/gen_resorder.py must
    type-check (rustc's verdict per program is also compared with [res_views_accepted] of Model/ResOrder.v on the
    regenerated fact) and, run, must return the resource of the requested type at each position."""
    import re
    sys.path.insert(0, os.path.join(VERIF, "tools"))
    import gen_resorder
    regen_all()
    out = os.path.join(common.BUILD, "resorder")
    fam = gen_resorder.emit(out, common.REPO)
    lock = os.path.join(out, "Cargo.lock")
    if not os.path.exists(lock):
        open(lock, "w").write(open(os.path.join(common.REPO, "Cargo.lock")).read())
    e = common.env()
    e["CARGO_TARGET_DIR"] = os.path.join(common.BUILD, "target_resorder")
    e["RUSTFLAGS"] = "-Awarnings"
    errs, infra, saw = [], None, False
    with common.Lock("cargo-resorder"):
        p = common.run(["cargo", "check", "--offline", "--message-format=json", "--lib"], cwd=out, check=False, env_=e, timeout=1800)
        for line in p.stdout.split("\n"):
            if not line.startswith("{"):
                continue
            try:
                m = json.loads(line)
            except ValueError:
                continue
            if m.get("reason") == "build-finished":
                saw = True
            if m.get("reason") != "compiler-message" or m["message"].get("level") != "error":
                continue
            if m.get("target", {}).get("name", "") != "resorder":
                infra = "brood itself does not compile: " + m["message"].get("message", "")[:300]
                continue
            spans = [sp for sp in m["message"].get("spans", []) if sp.get("is_primary")] or m["message"].get("spans", [])
            for sp in spans[:1]:
                hops = 0
                while not sp.get("file_name", "").endswith("src/lib.rs") and (sp.get("expansion") or {}).get("span") and hops < 16:
                    sp = sp["expansion"]["span"]
                    hops += 1
                if sp.get("file_name", "").endswith("src/lib.rs"):
                    errs.append((sp["line_start"], m["message"]["message"][:200]))
                else:
                    infra = "error outside the programs: " + m["message"]["message"][:200]
        if not saw and not errs and not infra:
            infra = "cargo check produced no result for the resource-order programs: " + p.stdout[-600:]
        if infra:
            raise Infra(infra)
        verdict = {}
        for pr in fam:
            mine = [msg for (ln, msg) in errs if pr["first_line"] <= ln <= pr["last_line"]]
            verdict[pr["name"]] = mine
        stray = [x for x in errs if not any(pr["first_line"] <= x[0] <= pr["last_line"] for pr in fam)]
        if stray:
            raise Infra("error outside every resource-order program: %s" % stray[:2])
        values = None
        if not errs:
            r = common.run(["cargo", "run", "--offline", "--quiet"], cwd=out, check=False, env_=e, timeout=1800)
            if r.returncode != 0:
                raise Infra("the resource-order programs type-check but do not run: " + r.stdout[-600:])
            values = {l.split()[0]: [int(x) for x in l.split()[1:]] for l in r.stdout.split("\n") if l.strip()}
    # the model's verdicts on the regenerated fact
    wd = os.path.join(common.BUILD, "run", "resorder")
    os.makedirs(wd, exist_ok=True)
    with open(os.path.join(wd, "cases.v"), "w") as f:
        f.write("From Brood Require Import Base Facts ResOrder.\n")
        f.write("Definition b2n (b : bool) : nat := if b then 1 else 0.\n")
        f.write("Eval vm_compute in [%s].\n" % "; ".join(
            "b2n (res_views_accepted [%s] [%s])" % ("; ".join(map(str, range(pr["n"]))), "; ".join(map(str, pr["order"]))) for pr in fam))
    model = None
    ok, log = common.build_coq(["Model/ResOrder.vo"])
    if ok:
        with common.Lock("coq"):
            q = common.run(["timeout", "600", "coqc", "-noglob", "-Q", common.COQ, "Brood", os.path.join(wd, "cases.v")], cwd=wd, check=False)
        m = re.search(r"=\s*\[([^\]]*)\]", q.stdout)
        if q.returncode == 0 and m:
            model = [int(x) for x in re.findall(r"\d+", m.group(1))]
            if len(model) != len(fam):
                model = None
    info = {"programs": len(fam), "rejected_by_rustc": sum(1 for v in verdict.values() if v),
            "model_evaluated": model is not None, "values_checked": 0}
    for i, pr in enumerate(fam):
        if verdict[pr["name"]]:
            msg = ("resource views requested in the order %s over %d resources (through %s) do not type-check: %s"
                   % (pr["order"], pr["n"], pr["via"], verdict[pr["name"]][0]))
            path = write_replay(pid, seed, {"property": pid, "kind": "failing-program", "message": msg, "program": pr,
                                            "model_accepts": (model[i] if model else None),
                                            "all_rejected": [q_["name"] for q_ in fam if verdict[q_["name"]]],
                                            "how_to_replay": "cd build/resorder && cargo check --offline --lib  (module p_%s)" % pr["name"]})
            print("VIOLATION property=%s replay=%s" % (pid, path))
            print("  " + msg)
            return 1, info
    for pr in fam:
        want = [100 + i for i in pr["order"]]
        got = (values or {}).get(pr["name"])
        info["values_checked"] += 1
        if got != want:
            msg = "resource views %s over %d resources (through %s) returned %s, the requested resources hold %s" % (pr["order"], pr["n"], pr["via"], got, want)
            path = write_replay(pid, seed, {"property": pid, "kind": "failing-program", "message": msg, "program": pr,
                                            "how_to_replay": "cd build/resorder && cargo run --offline"})
            print("VIOLATION property=%s replay=%s" % (pid, path))
            print("  " + msg)
            return 1, info
    if model is None or any(x != 1 for x in model):
        path = write_replay(pid, seed, {"property": pid, "kind": "no-failing-input-found", "no_longer_checks": [{
            "correspondence": "rustc accepts every resource-view order, res_views_accepted (Model/ResOrder.v on the regenerated fact) does not, or could not be evaluated",
            "model": model, "log": (log or "")[-800:]}]})
        print("VIOLATION property=%s replay=%s no-failing-input-found" % (pid, path))
        return 1, info
    return 0, info


HYGIENE_HEADER = """#![allow(unused)]
use brood::{entities, entity, Registry, World};
#[derive(Clone, Debug, PartialEq)] pub struct A(pub u32);
#[derive(Clone, Debug, PartialEq)] pub struct B(pub u32);
pub type W = World<Registry!(A, B)>;
pub unsafe fn danger() -> A { A(7) }
pub unsafe fn dangerb() -> B { B(7) }
pub unsafe fn danger_n() -> usize { 2 }
"""
HYGIENE_PROGRAMS = [
    ("cloned_first", "w.extend(entities!((danger()); 2));", "reject"),
    ("cloned_second", "w.extend(entities!((A(1), dangerb()); 2));", "reject"),
    ("cloned_size", "w.extend(entities!((A(1)); danger_n()));", "reject"),
    ("rows_first", "w.extend(entities!((danger()), (A(2))));", "reject"),
    ("rows_later", "w.extend(entities!((A(1), B(1)), (A(2), dangerb())));", "reject"),
    ("null_size", "w.extend(entities!((); danger_n()));", "reject"),
    ("entity_macro", "w.insert(entity!(danger()));", "reject"),
    ("control_cloned", "w.extend(entities!((A(1), B(2)); 2));", "accept"),
    ("control_rows", "w.extend(entities!((A(1)), (A(2))));", "accept"),
    ("control_null", "w.extend(entities!((); 3));", "accept"),
    ("control_marked", "w.extend(entities!((unsafe { danger() }); 2));", "accept"),
]


def c05_hygiene_part(pid, seed):
    with common.Lock("small-programs"):
        return _c05_hygiene_part(pid, seed)


def _c05_hygiene_part(pid, seed):
    """The macros that contain `unsafe` must not lend it to the caller's expressions (C05: no SAFE code misuses
    memory): a call of an `unsafe fn` written as a macro argument, without an `unsafe` block of the caller's own,
    must be rejected by rustc (E0133)."""
    out = os.path.join(common.BUILD, "hygiene")
    os.makedirs(os.path.join(out, "src"), exist_ok=True)
    lines = HYGIENE_HEADER.split("\n")
    fam = []
    for name, body, expect in HYGIENE_PROGRAMS:
        first = len(lines) + 1
        lines.append("pub mod p_%s { use super::*; pub fn f(w: &mut W) { %s } }" % (name, body))
        fam.append({"name": name, "body": body, "expect": expect, "first_line": first, "last_line": len(lines)})
    text = "\n".join(lines) + "\n"
    lp = os.path.join(out, "src", "lib.rs")
    if not os.path.exists(lp) or open(lp).read() != text:
        open(lp, "w").write(text)
    ct = "[package]\nname = \"hygiene\"\nversion = \"0.0.0\"\nedition = \"2021\"\n\n[dependencies]\nbrood = { path = \"%s\" }\n\n[workspace]\n" % common.REPO
    cp = os.path.join(out, "Cargo.toml")
    if not os.path.exists(cp) or open(cp).read() != ct:
        open(cp, "w").write(ct)
    lock = os.path.join(out, "Cargo.lock")
    if not os.path.exists(lock):
        open(lock, "w").write(open(os.path.join(common.REPO, "Cargo.lock")).read())
    e = common.env()
    e["CARGO_TARGET_DIR"] = os.path.join(common.BUILD, "target_resorder")
    e["RUSTFLAGS"] = "-Awarnings"
    errs, saw = [], False
    with common.Lock("cargo-resorder"):
        p = common.run(["cargo", "check", "--offline", "--message-format=json", "--lib"], cwd=out, check=False, env_=e, timeout=1800)
    for line in p.stdout.split("\n"):
        if not line.startswith("{"):
            continue
        try:
            m = json.loads(line)
        except ValueError:
            continue
        if m.get("reason") == "build-finished":
            saw = True
        if m.get("reason") != "compiler-message" or m["message"].get("level") != "error":
            continue
        if m.get("target", {}).get("name", "") != "hygiene":
            raise Infra("brood itself does not compile: " + m["message"].get("message", "")[:300])
        code = (m["message"].get("code") or {}).get("code")
        spans = [sp for sp in m["message"].get("spans", []) if sp.get("is_primary")] or m["message"].get("spans", [])
        for sp in spans[:1]:
            hops = 0
            while not sp.get("file_name", "").endswith("src/lib.rs") and (sp.get("expansion") or {}).get("span") and hops < 16:
                sp = sp["expansion"]["span"]
                hops += 1
            if sp.get("file_name", "").endswith("src/lib.rs"):
                errs.append((sp["line_start"], code, m["message"]["message"][:160]))
    if not saw and not errs:
        raise Infra("cargo check produced no result for the hygiene programs: " + p.stdout[-600:])
    info = {"programs": len(fam), "rejected": 0}
    for pr in fam:
        mine = [(c, msg) for (ln, c, msg) in errs if pr["first_line"] <= ln <= pr["last_line"]]
        got = "reject" if mine else "accept"
        info["rejected"] += 1 if mine else 0
        bad = None
        if got != pr["expect"]:
            bad = "rustc %ss `%s`, which must be %sed: %s" % (got, pr["body"], pr["expect"],
                   "an unsafe function is called from code without any `unsafe` of its own (the macro lends its unsafe block to the "
                   "caller's expression)" if got == "accept" else "; ".join("%s %s" % x for x in mine[:2]))
        elif got == "reject" and not any(c == "E0133" for c, _ in mine):
            bad = "`%s` is rejected, but not for the call of an unsafe function: %s" % (pr["body"], mine[:2])
        if bad:
            path = write_replay(pid, seed, {"property": pid, "kind": "failing-program", "message": bad, "program": pr,
                                            "how_to_replay": "cd build/hygiene && cargo check --offline --lib  (module p_%s)" % pr["name"]})
            print("VIOLATION property=%s replay=%s" % (pid, path))
            print("  " + bad)
            return 1, info
    return 0, info


def c13_probe_part(pid, seed):
    with common.Lock("small-programs"):
        return _c13_probe_part(pid, seed)


def _c13_probe_part(pid, seed):
    """len() after caught panics the world-history harness cannot build (harness/src/bin/lenprobe.rs)."""
    err = common.build_harness(["lenprobe"])
    if err:
        raise Infra("lenprobe does not build against /repo:\n" + err[-2000:])
    e = common.env()
    r = common.run([os.path.join(common.TARGET, "debug", "lenprobe")], check=False, env_=e, timeout=300)
    lines = [l for l in r.stdout.split("\n") if " len=" in l]
    if r.returncode != 0 or len(lines) < 3:
        msg = "the len() probes died (exit status %s): %s" % (r.returncode, r.stdout[-300:])
        path = write_replay(pid, seed, {"property": pid, "kind": "failing-program", "message": msg,
                                        "how_to_replay": "build/target/debug/lenprobe  (harness/src/bin/lenprobe.rs)"})
        print("VIOLATION property=%s replay=%s" % (pid, path))
        print("  " + msg)
        return 1, {"probes": len(lines)}
    for l in lines:
        f = dict(x.split("=") for x in l.split()[1:])
        if f["len"] != f["stored"] or f.get("reused", "true") != "true":
            msg = "after a caught panic (%s): len() = %s, %s entities are stored%s" % (
                l.split()[0], f["len"], f["stored"], "" if f.get("reused", "true") == "true" else ", the freed slot is not reused")
            path = write_replay(pid, seed, {"property": pid, "kind": "failing-program", "message": msg, "probe_output": lines,
                                            "how_to_replay": "build/target/debug/lenprobe  (harness/src/bin/lenprobe.rs)"})
            print("VIOLATION property=%s replay=%s" % (pid, path))
            print("  " + msg)
            return 1, {"probes": len(lines)}
    return 0, {"probes": len(lines)}


def run_check(pid, tier, seed, t0):
    if pid == "C09":
        # "the outcome of a parallel system ... equals that of its sequential counterpart": also inside schedules
        rc = wh_check(pid, tier, seed, t0)
        rc2, n_, with_ = (0, 0, 0) if rc else c15_sched_part(pid, tier, seed)
        ev = os.path.join(EVIDENCE, pid + ".json")
        if os.path.exists(ev):
            d = json.load(open(ev))
            d.setdefault("coverage", {})["schedule_runs_judged_on_parallel_systems"] = n_
            if rc2:
                d["violations"] = max(1, d.get("violations", 0))
            json.dump(d, open(ev, "w"), indent=1)
        return rc or rc2
    if pid == "C05":
        rc = wh_check(pid, tier, seed, t0)
        rc2, info = (0, {}) if rc else c05_hygiene_part(pid, seed)
        ev = os.path.join(EVIDENCE, pid + ".json")
        if os.path.exists(ev):
            d = json.load(open(ev))
            d.setdefault("coverage", {})["unsafe_hygiene_programs"] = info
            if rc2:
                d["violations"] = max(1, d.get("violations", 0))
            json.dump(d, open(ev, "w"), indent=1)
        return rc or rc2
    if pid == "C13":
        rc = wh_check(pid, tier, seed, t0)
        rc2, info = (0, {}) if rc else c13_probe_part(pid, seed)
        ev = os.path.join(EVIDENCE, pid + ".json")
        if os.path.exists(ev):
            d = json.load(open(ev))
            d.setdefault("coverage", {})["len_probes_after_caught_panics"] = info
            if rc2:
                d["violations"] = max(1, d.get("violations", 0))
            json.dump(d, open(ev, "w"), indent=1)
        return rc or rc2
    if pid == "C15":
        # the order sweep runs first: when the theorem about orders no longer checks, it is the search for a
        # concrete failing input, and its replay is the one that is kept
        rc3, oinfo = c15_order_part(pid, seed)
        if rc3:
            import contextlib
            import io
            rp = os.path.join(VERIF, "replays", "%s-%s.json" % (pid, seed))
            keep = open(rp).read() if os.path.exists(rp) else None
            buf = io.StringIO()
            with contextlib.redirect_stdout(buf):
                rc = wh_check(pid, tier, seed, t0)
            lines = buf.getvalue().split("\n")
            for i, l in enumerate(lines):
                if l.startswith("KNOWN-FINDING"):
                    print(l)
                elif l.startswith("VIOLATION") and not l.rstrip().endswith("no-failing-input-found"):
                    print(l)
                    keep = None
            if keep is not None:
                open(rp, "w").write(keep)
            rc2, n, with_res = 0, 0, 0
        else:
            rc = wh_check(pid, tier, seed, t0)
            rc2, n, with_res = (0, 0, 0) if rc else c15_sched_part(pid, tier, seed)
        ev = os.path.join(EVIDENCE, pid + ".json")
        if os.path.exists(ev):
            d = json.load(open(ev))
            d.setdefault("coverage", {})["schedule_runs_judged_on_resources"] = n
            d["coverage"]["schedule_runs_with_resource_views"] = with_res
            d["coverage"]["resource_view_orders"] = oinfo
            if rc2 or rc3:
                d["violations"] = max(1, d.get("violations", 0))
            json.dump(d, open(ev, "w"), indent=1)
        return rc or rc2 or rc3
    if pid in WH:
        return wh_check(pid, tier, seed, t0)
    if pid in ("C07", "C08", "C12"):
        return sched_check(pid, tier, seed, t0)
    if pid == "C18":
        return ctor_check(pid, tier, seed, t0)
    if pid == "C14":
        return cfail_check(pid, tier, seed, t0)
    raise Infra("no check registered for %s" % pid)


def replay(pid, path):
    if pid in ("C15", "C09") and json.load(open(path)).get("kind") == "failing-schedule-run":
        return replay_sched(pid, path)
    if pid == "C05" and json.load(open(path)).get("kind") == "failing-program":
        print(json.dumps(json.load(open(path)), indent=1)[:2000])
        return c05_hygiene_part(pid, 1)[0]
    if pid == "C13" and json.load(open(path)).get("kind") == "failing-program":
        print(json.dumps(json.load(open(path)), indent=1)[:2000])
        return c13_probe_part(pid, 1)[0]
    if pid == "C15" and json.load(open(path)).get("kind") == "failing-program":
        r = json.load(open(path))
        print(json.dumps({k: r.get(k) for k in ("message", "program", "how_to_replay")}, indent=1)[:3000])
        return c15_order_part(pid, 1)[0]
    if pid in WH:
        return replay_wh(pid, path)
    if pid in ("C07", "C08", "C12"):
        return replay_sched(pid, path)
    if pid in ("C18", "C14"):
        r = json.load(open(path))
        print(json.dumps({k: r.get(k) for k in ("message", "case", "program", "how_to_replay", "no_longer_checks")}, indent=1)[:3000])
        return run_check(pid, "quick", 1, time.time())
    raise Infra("no replay for %s" % pid)
