(** Clone / clone_from produce exact copies; world equality is sound.
    (Properties "a cloned world is an exact copy" and "equality between worlds
    is sound".) *)
From Brood Require Import Base World Multi Spec BaseFacts Inv.
From Coq Require Import Permutation.

Definition rows_of (sh : shape) (archs : list arch) : list row :=
  match find_arch sh archs with Some a => a_rows a | None => [] end.

(** * Small generic facts *)

Lemma arch_eta a : mkArch (a_shape a) (a_rows a) = a.
Proof. destruct a; reflexivity. Qed.

Lemma find_arch_cons sh a t :
  find_arch sh (a :: t) = if shape_eqb (a_shape a) sh then Some a else find_arch sh t.
Proof. reflexivity. Qed.

Lemma find_arch_Some_In_shape sh archs a :
  find_arch sh archs = Some a -> In sh (map a_shape archs).
Proof.
  intros H. rewrite <- (@find_arch_shape sh archs a H).
  apply in_map. exact (@find_arch_In sh archs a H).
Qed.

Lemma In_shape_find_arch sh archs :
  In sh (map a_shape archs) -> exists a, find_arch sh archs = Some a.
Proof.
  intros H. destruct (find_arch sh archs) as [a|] eqn:E; [eauto|].
  apply find_arch_None in E. contradiction.
Qed.

Lemma NoDup_snoc A (l : list A) x : NoDup l -> ~ In x l -> NoDup (l ++ [x]).
Proof.
  intros ND Hn. apply (@Permutation_NoDup A (x :: l)).
  - apply Permutation_cons_append.
  - constructor; assumption.
Qed.

Lemma NoDup_map_filter A B (f : A -> B) (p : A -> bool) l :
  NoDup (map f l) -> NoDup (map f (filter p l)).
Proof.
  induction l as [|a t IH]; intros ND; cbn [filter map] in *; [constructor|].
  inversion ND as [|x l Hnin ND']; subst.
  destruct (p a); cbn [map]; [|apply IH; exact ND'].
  constructor; [|apply IH; exact ND'].
  intros Hin. apply Hnin. apply in_map_iff in Hin as [b [Hb1 Hb2]].
  apply filter_In in Hb2 as [Hb2 _]. apply in_map_iff. exists b. split; assumption.
Qed.

Lemma find_arch_map g l sh :
  (forall a, a_shape (g a) = a_shape a) ->
  find_arch sh (map g l) = option_map g (find_arch sh l).
Proof.
  intros Hg. unfold find_arch. induction l as [|a t IH]; cbn [map find]; [reflexivity|].
  rewrite Hg. destruct (shape_eqb (a_shape a) sh); [reflexivity | exact IH].
Qed.

Lemma rows_of_alt sh l :
  rows_of sh l = match option_map a_rows (find_arch sh l) with Some r => r | None => [] end.
Proof. unfold rows_of. destruct (find_arch sh l); reflexivity. Qed.

(** * [total_rows] only depends on the finite map shape ↦ rows *)

Definition remove_shape (sh : shape) (l : list arch) : list arch :=
  filter (fun a => negb (shape_eqb (a_shape a) sh)) l.

Lemma remove_shape_notin sh l : ~ In sh (map a_shape l) -> remove_shape sh l = l.
Proof.
  induction l as [|a t IH]; intros Hn; [reflexivity|].
  cbn [map] in Hn. unfold remove_shape. cbn [filter]. fold (remove_shape sh t).
  destruct (shape_eqb (a_shape a) sh) eqn:E.
  - apply shape_eqb_eq in E. exfalso. apply Hn. left. exact E.
  - cbn [negb]. rewrite IH; [reflexivity|]. intros H. apply Hn. right. exact H.
Qed.

Lemma remove_shape_nodup sh l :
  NoDup (map a_shape l) -> NoDup (map a_shape (remove_shape sh l)).
Proof. apply NoDup_map_filter. Qed.

Lemma find_remove_shape sh sh' l :
  find_arch sh' (remove_shape sh l) =
  if shape_eqb sh' sh then None else find_arch sh' l.
Proof.
  induction l as [|a t IH].
  - cbn. destruct (shape_eqb sh' sh); reflexivity.
  - unfold remove_shape. cbn [filter]. fold (remove_shape sh t).
    rewrite find_arch_cons.
    destruct (shape_eqb (a_shape a) sh) eqn:E1; cbn [negb].
    + rewrite IH. destruct (shape_eqb sh' sh) eqn:E2; [reflexivity|].
      destruct (shape_eqb (a_shape a) sh') eqn:E3; [|reflexivity].
      apply shape_eqb_eq in E1. apply shape_eqb_eq in E3. subst sh sh'.
      rewrite shape_eqb_refl in E2. discriminate.
    + rewrite find_arch_cons. rewrite IH.
      destruct (shape_eqb (a_shape a) sh') eqn:E3; [|reflexivity].
      apply shape_eqb_eq in E3. subst sh'. rewrite E1. reflexivity.
Qed.

Lemma rows_of_remove_shape sh sh' l :
  rows_of sh' (remove_shape sh l) = if shape_eqb sh' sh then [] else rows_of sh' l.
Proof.
  unfold rows_of. rewrite find_remove_shape. destruct (shape_eqb sh' sh); reflexivity.
Qed.

Lemma total_rows_remove sh l :
  NoDup (map a_shape l) ->
  total_rows l = length (rows_of sh l) + total_rows (remove_shape sh l).
Proof.
  induction l as [|a t IH]; intros ND; [reflexivity|].
  cbn [map] in ND. inversion ND as [|x l Hnin ND']; subst.
  unfold rows_of. rewrite find_arch_cons.
  unfold remove_shape. cbn [filter]. fold (remove_shape sh t).
  destruct (shape_eqb (a_shape a) sh) eqn:E; cbn [negb].
  - apply shape_eqb_eq in E. subst sh.
    rewrite remove_shape_notin by exact Hnin.
    rewrite total_rows_cons. reflexivity.
  - rewrite !total_rows_cons. rewrite (IH ND'). unfold rows_of. lia.
Qed.

Lemma total_rows_all_empty l :
  (forall a, In a l -> a_rows a = []) -> total_rows l = 0.
Proof.
  induction l as [|a t IH]; intros H; [reflexivity|].
  rewrite total_rows_cons. rewrite (H a) by (left; reflexivity).
  rewrite IH; [reflexivity|]. intros b Hb. apply H. right. exact Hb.
Qed.

(** Two tables that denote the same map shape ↦ rows hold the same number of
    rows (whatever their order and whatever empty archetypes they carry). *)
Lemma total_rows_ext l1 : forall l2,
  NoDup (map a_shape l1) -> NoDup (map a_shape l2) ->
  (forall sh, rows_of sh l1 = rows_of sh l2) ->
  total_rows l1 = total_rows l2.
Proof.
  induction l1 as [|a t IH]; intros l2 ND1 ND2 HR.
  - symmetry. apply total_rows_all_empty. intros b Hb.
    specialize (HR (a_shape b)). unfold rows_of in HR.
    rewrite (In_find_arch l2 b ND2 Hb) in HR. cbn in HR. symmetry. exact HR.
  - cbn [map] in ND1. inversion ND1 as [|x l Hnin ND1']; subst.
    rewrite total_rows_cons.
    rewrite (total_rows_remove (a_shape a) l2 ND2).
    rewrite <- (HR (a_shape a)).
    unfold rows_of at 1. rewrite find_arch_cons, shape_eqb_refl.
    f_equal. apply IH.
    + exact ND1'.
    + apply remove_shape_nodup. exact ND2.
    + intros sh. rewrite rows_of_remove_shape.
      destruct (shape_eqb sh (a_shape a)) eqn:E.
      * apply shape_eqb_eq in E. subst sh. unfold rows_of.
        assert (Ht : find_arch (a_shape a) t = None) by (apply find_arch_None; exact Hnin).
        rewrite Ht. reflexivity.
      * rewrite <- (HR sh). unfold rows_of. rewrite find_arch_cons.
        rewrite shape_eqb_sym in E. rewrite E. reflexivity.
Qed.

(** * [refs_resolve] holds under the invariant *)

Lemma refs_resolve_inv w :
  Inv w -> refs_resolve (w_archs w) (w_tid w) (w_slots w) = true.
Proof.
  intros H. unfold refs_resolve. apply andb_true_iff. split.
  - apply forallb_forall. intros sh Hin.
    destruct (@inv_tid w H sh Hin) as [a Ha]. rewrite Ha. reflexivity.
  - apply forallb_forall. intros s Hin.
    destruct s as [g [[sh r]|]]; cbn [s_loc]; [|reflexivity].
    apply In_nth_error in Hin as [i Hi].
    destruct (@inv_fwd w H i g sh r Hi) as [a [vals [Ha _]]]. rewrite Ha. reflexivity.
Qed.

(** * Clone *)

Theorem clone_world_safe : forall w, Inv w -> clone_world w <> None.
Proof.
  intros w H. unfold clone_world. rewrite (refs_resolve_inv w H). discriminate.
Qed.

Theorem clone_world_same : forall w w' evs, clone_world w = Some (w', evs) -> w' = w.
Proof.
  intros w w' evs. unfold clone_world.
  destruct (refs_resolve (w_archs w) (w_tid w) (w_slots w)); [|discriminate].
  intros H. inversion H. reflexivity.
Qed.

(** * Clone_from: the archetype table of the result as a finite map *)

Lemma merge_nodup src : forall dst evs,
  NoDup (map a_shape dst) -> NoDup (map a_shape (fst (merge_archs src dst evs))).
Proof.
  induction src as [|sa t IH]; intros dst evs ND; cbn [merge_archs]; [exact ND|].
  destruct (find_arch (a_shape sa) dst) as [da|] eqn:E.
  - apply IH. rewrite map_shape_upd_arch. exact ND.
  - apply IH. rewrite map_app. cbn [map]. apply find_arch_None in E.
    apply NoDup_snoc; assumption.
Qed.

Lemma merge_find src : forall dst evs sh,
  NoDup (map a_shape src) ->
  find_arch sh (fst (merge_archs src dst evs)) =
  match find_arch sh src with Some a => Some a | None => find_arch sh dst end.
Proof.
  induction src as [|sa t IH]; intros dst evs sh ND; [reflexivity|].
  cbn [map] in ND. inversion ND as [|x l Hnin ND']; subst.
  cbn [merge_archs]. rewrite find_arch_cons.
  destruct (find_arch (a_shape sa) dst) as [da|] eqn:E.
  - rewrite (IH _ _ sh ND').
    destruct (shape_eqb (a_shape sa) sh) eqn:Es.
    + apply shape_eqb_eq in Es. subst sh.
      assert (Ht : find_arch (a_shape sa) t = None) by (apply find_arch_None; exact Hnin).
      rewrite Ht. rewrite find_upd_arch_same. rewrite E. cbn [option_map].
      rewrite (@find_arch_shape _ _ _ E). rewrite arch_eta. reflexivity.
    + destruct (find_arch sh t); [reflexivity|].
      apply find_upd_arch_other. apply shape_eqb_neq in Es. congruence.
  - rewrite (IH _ _ sh ND').
    destruct (shape_eqb (a_shape sa) sh) eqn:Es.
    + apply shape_eqb_eq in Es. subst sh.
      assert (Ht : find_arch (a_shape sa) t = None) by (apply find_arch_None; exact Hnin).
      rewrite Ht. rewrite find_arch_app. rewrite E.
      rewrite find_arch_cons, shape_eqb_refl. reflexivity.
    + destruct (find_arch sh t); [reflexivity|].
      rewrite find_arch_app. destruct (find_arch sh dst); [reflexivity|].
      rewrite find_arch_cons, Es. reflexivity.
Qed.

Definition detach_f (src : list arch) (a : arch) : arch :=
  match find_arch (a_shape a) src with
  | Some _ => a
  | None => mkArch (a_shape a) []
  end.

Lemma detach_f_shape src a : a_shape (detach_f src a) = a_shape a.
Proof. unfold detach_f. destruct (find_arch (a_shape a) src); reflexivity. Qed.

(** The archetype table [clone_from] leaves in the destination. *)
Definition cf_archs (dst src : list arch) : list arch :=
  map (detach_f src) (fst (merge_archs src dst [])).

Lemma cf_nodup dst src :
  NoDup (map a_shape dst) -> NoDup (map a_shape (cf_archs dst src)).
Proof.
  intros ND. unfold cf_archs. rewrite map_map.
  rewrite (map_ext _ a_shape (detach_f_shape src)).
  apply merge_nodup. exact ND.
Qed.

Lemma cf_find dst src sh :
  NoDup (map a_shape src) ->
  find_arch sh (cf_archs dst src) =
  match find_arch sh src with
  | Some a => Some a
  | None => match find_arch sh dst with
            | Some _ => Some (mkArch sh [])
            | None => None
            end
  end.
Proof.
  intros ND. unfold cf_archs.
  rewrite (find_arch_map (detach_f src) _ sh (detach_f_shape src)).
  rewrite (merge_find src _ _ sh ND).
  destruct (find_arch sh src) as [sa|] eqn:Es.
  - cbn [option_map]. unfold detach_f.
    rewrite (@find_arch_shape _ _ _ Es). rewrite Es. reflexivity.
  - destruct (find_arch sh dst) as [da|] eqn:Ed; cbn [option_map]; [|reflexivity].
    unfold detach_f. rewrite (@find_arch_shape _ _ _ Ed). rewrite Es. reflexivity.
Qed.

Lemma cf_rows_of dst src sh :
  NoDup (map a_shape src) ->
  rows_of sh (cf_archs dst src) = rows_of sh src.
Proof.
  intros ND. unfold rows_of. rewrite (cf_find dst src sh ND).
  destruct (find_arch sh src); [reflexivity|].
  destruct (find_arch sh dst); reflexivity.
Qed.

Lemma clone_from_unfold dst src w' evs :
  clone_from_world dst src = Some (w', evs) ->
  w' = mkWorld (w_n dst) (cf_archs (w_archs dst) (w_archs src))
               (union_tid (w_tid src) (w_tid dst))
               (w_slots src) (w_free src) (w_len src) (w_res src).
Proof.
  unfold clone_from_world, cf_archs.
  destruct (refs_resolve (w_archs src) (w_tid src) (w_slots src)); cbn [negb]; [|discriminate].
  destruct (merge_archs (w_archs src) (w_archs dst) []) as [archs0 evs0].
  unfold detach_others. cbn [fst]. intros H. inversion H. reflexivity.
Qed.

Theorem clone_from_safe : forall dst src, Inv src -> clone_from_world dst src <> None.
Proof.
  intros dst src H. unfold clone_from_world.
  rewrite (refs_resolve_inv src H). cbn [negb].
  destruct (merge_archs (w_archs src) (w_archs dst) []) as [archs0 evs0].
  unfold detach_others. discriminate.
Qed.

Theorem clone_from_inv : forall dst src w' evs, Inv dst -> Inv src -> w_n dst = w_n src ->
   clone_from_world dst src = Some (w', evs) -> Inv w'.
Proof.
  intros dst src w' evs Id Is Hn HC.
  apply clone_from_unfold in HC. subst w'.
  pose proof (@inv_nodup src Is) as NDs.
  pose proof (@inv_nodup dst Id) as NDd.
  pose proof (cf_nodup (w_archs dst) (w_archs src) NDd) as NDc.
  constructor; cbn [w_n w_archs w_tid w_slots w_free w_len w_res].
  - (* shapes *)
    intros a Ha.
    pose proof (In_find_arch _ a NDc Ha) as Hf.
    rewrite (cf_find (w_archs dst) (w_archs src) (a_shape a) NDs) in Hf.
    destruct (find_arch (a_shape a) (w_archs src)) as [sa|] eqn:Es.
    + inversion Hf; subst sa.
      destruct (@inv_shapes src Is a (@find_arch_In _ _ _ Es)) as [H1 H2].
      split; [rewrite Hn; exact H1 | exact H2].
    + destruct (find_arch (a_shape a) (w_archs dst)) as [da|] eqn:Ed; [|discriminate].
      inversion Hf as [Hf'].
      destruct (@inv_shapes dst Id da (@find_arch_In _ _ _ Ed)) as [H1 _].
      rewrite (@find_arch_shape _ _ _ Ed) in H1.
      split; [exact H1|].
      rewrite <- Hf'. cbn [a_rows]. intros rw [].
  - exact NDc.
  - (* fwd *)
    intros i g sh r Hs.
    destruct (@inv_fwd src Is i g sh r Hs) as [a [vals [Ha Hr]]].
    exists a, vals. split; [|exact Hr].
    rewrite (cf_find _ _ sh NDs). rewrite Ha. reflexivity.
  - (* bwd *)
    intros sh a r i g vals Hf Hr.
    rewrite (cf_find _ _ sh NDs) in Hf.
    destruct (find_arch sh (w_archs src)) as [sa|] eqn:Es.
    + inversion Hf; subst sa. exact (@inv_bwd src Is sh a r i g vals Es Hr).
    + destruct (find_arch sh (w_archs dst)); [|discriminate].
      inversion Hf; subst a. cbn [a_rows] in Hr. destruct r; discriminate.
  - exact (@inv_free_nodup src Is).
  - exact (@inv_free src Is).
  - rewrite (@inv_len src Is). symmetry.
    apply total_rows_ext; [exact NDc | exact NDs |].
    intros sh. apply cf_rows_of. exact NDs.
  - (* tid *)
    intros sh Hin. unfold union_tid in Hin. rewrite (cf_find _ _ sh NDs).
    apply in_app_or in Hin as [Hin|Hin].
    + destruct (@inv_tid dst Id sh Hin) as [da Hda]. rewrite Hda.
      destruct (find_arch sh (w_archs src)); eauto.
    + apply filter_In in Hin as [Hin _].
      destruct (@inv_tid src Is sh Hin) as [sa Hsa]. rewrite Hsa. eauto.
Qed.

(** * The abstraction function under the invariant *)

Lemma In_abs w p :
  In p (abs w) <->
  exists a rw, In a (w_archs w) /\ In rw (a_rows a) /\
               p = (fst rw, row_abs (a_shape a) (snd rw)).
Proof.
  unfold abs. rewrite in_flat_map. split.
  - intros [a [Ha Hp]]. apply in_map_iff in Hp as [rw [Hrw Hin]].
    exists a, rw. split; [exact Ha|]. split; [exact Hin|]. symmetry. exact Hrw.
  - intros [a [rw [Ha [Hrw Hp]]]]. exists a. split; [exact Ha|].
    apply in_map_iff. exists rw. split; [symmetry; exact Hp | exact Hrw].
Qed.

(** [absf w e] is the component vector of the (unique) stored row whose
    identifier is [e]. *)
Lemma absf_spec w e cv :
  Inv w ->
  (absf w e = Some cv <->
   exists sh a r vals,
     find_arch sh (w_archs w) = Some a /\
     nth_error (a_rows a) r = Some (e, vals) /\
     cv = row_abs sh vals).
Proof.
  intros I. pose proof (@inv_nodup w I) as ND. unfold absf. split.
  - destruct (find (fun p => eid_eqb (fst p) e) (abs w)) as [p|] eqn:F; [|discriminate].
    intros Hcv. inversion Hcv; subst cv. clear Hcv.
    apply find_some in F as [Hin He]. apply eid_eqb_eq in He.
    apply In_abs in Hin as [a [rw [Ha [Hrw Hp]]]].
    apply In_nth_error in Hrw as [r Hr].
    destruct rw as [e' vals]. subst p. cbn [fst snd] in *. subst e'.
    exists (a_shape a), a, r, vals.
    split; [apply In_find_arch; assumption|]. split; [exact Hr | reflexivity].
  - intros [sh [a [r [vals [Hf [Hr Hcv]]]]]]. subst cv.
    assert (Hin : In (e, row_abs sh vals) (abs w)).
    { apply In_abs. exists a, (e, vals). cbn [fst snd].
      split; [exact (@find_arch_In _ _ _ Hf)|].
      split; [exact (nth_error_In _ _ Hr)|].
      rewrite (@find_arch_shape _ _ _ Hf). reflexivity. }
    destruct (find (fun p => eid_eqb (fst p) e) (abs w)) as [p|] eqn:F.
    + apply find_some in F as [Hin' He]. apply eid_eqb_eq in He.
      apply In_abs in Hin' as [a' [rw' [Ha' [Hrw' Hp]]]].
      apply In_nth_error in Hrw' as [r' Hr'].
      destruct rw' as [e' vals']. subst p. cbn [fst snd] in *. subst e'.
      pose proof (In_find_arch _ a' ND Ha') as Hf'.
      destruct e as [i g].
      pose proof (@inv_bwd w I sh a r i g vals Hf Hr) as S1.
      pose proof (@inv_bwd w I (a_shape a') a' r' i g vals' Hf' Hr') as S2.
      rewrite S1 in S2. inversion S2 as [[Hsh Hrr]].
      subst r'. rewrite <- Hsh in Hf'. rewrite Hf in Hf'. inversion Hf'; subst a'.
      rewrite Hr in Hr'. inversion Hr'; subst vals'. reflexivity.
    + exfalso. pose proof (find_none _ _ F _ Hin) as Hno. cbn [fst] in Hno.
      assert (Ht : eid_eqb e e = true) by (apply eid_eqb_eq; reflexivity).
      rewrite Ht in Hno. discriminate.
Qed.

Lemma absf_None_spec w e :
  Inv w ->
  (absf w e = None <->
   forall sh a r vals, find_arch sh (w_archs w) = Some a ->
                       nth_error (a_rows a) r <> Some (e, vals)).
Proof.
  intros I. split.
  - intros HN sh a r vals Hf Hr.
    assert (HS : absf w e = Some (row_abs sh vals)).
    { apply (absf_spec w e _ I). exists sh, a, r, vals. auto. }
    rewrite HN in HS. discriminate.
  - intros H. destruct (absf w e) as [cv|] eqn:E; [|reflexivity].
    apply (absf_spec w e cv I) in E as [sh [a [r [vals [Hf [Hr _]]]]]].
    exfalso. exact (H sh a r vals Hf Hr).
Qed.

Lemma absf_rows_le a b e cv :
  Inv a -> Inv b ->
  (forall sh, rows_of sh (w_archs a) = rows_of sh (w_archs b)) ->
  absf a e = Some cv -> absf b e = Some cv.
Proof.
  intros Ia Ib HR H.
  apply (absf_spec a e cv Ia) in H as [sh [x [r [vals [Hf [Hr Hcv]]]]]].
  apply (absf_spec b e cv Ib).
  specialize (HR sh). unfold rows_of in HR. rewrite Hf in HR.
  destruct (find_arch sh (w_archs b)) as [y|] eqn:Fb.
  - exists sh, y, r, vals. rewrite <- HR. auto.
  - rewrite HR in Hr. destruct r; discriminate.
Qed.

(** Worlds that agree on the map shape ↦ rows denote the same entity map. *)
Lemma absf_rows_feq a b :
  Inv a -> Inv b ->
  (forall sh, rows_of sh (w_archs a) = rows_of sh (w_archs b)) ->
  feq (absf a) (absf b).
Proof.
  intros Ia Ib HR e.
  destruct (absf a e) as [cv|] eqn:Ea.
  - symmetry. exact (absf_rows_le a b e cv Ia Ib HR Ea).
  - destruct (absf b e) as [cv|] eqn:Eb; [|reflexivity].
    assert (HR' : forall sh, rows_of sh (w_archs b) = rows_of sh (w_archs a))
      by (intros sh; symmetry; apply HR).
    pose proof (absf_rows_le b a e cv Ib Ia HR' Eb) as H.
    rewrite Ea in H. discriminate.
Qed.

Theorem clone_from_content : forall dst src w' evs, Inv dst -> Inv src -> w_n dst = w_n src ->
   clone_from_world dst src = Some (w', evs) ->
   w_slots w' = w_slots src /\ w_free w' = w_free src /\ w_len w' = w_len src /\ w_res w' = w_res src /\
   (forall sh, rows_of sh (w_archs w') = rows_of sh (w_archs src)) /\
   feq (absf w') (absf src).
Proof.
  intros dst src w' evs Id Is Hn HC.
  pose proof (clone_from_inv dst src w' evs Id Is Hn HC) as I'.
  pose proof (clone_from_unfold dst src w' evs HC) as Hw.
  assert (HR : forall sh, rows_of sh (w_archs w') = rows_of sh (w_archs src)).
  { intros sh. rewrite Hw. cbn [w_archs]. apply cf_rows_of. exact (@inv_nodup src Is). }
  split; [rewrite Hw; reflexivity|].
  split; [rewrite Hw; reflexivity|].
  split; [rewrite Hw; reflexivity|].
  split; [rewrite Hw; reflexivity|].
  split; [exact HR|].
  apply absf_rows_feq; assumption.
Qed.

(** * Equality *)

Lemma list_eqb_eq A (eqb : A -> A -> bool) :
  (forall x y, eqb x y = true <-> x = y) ->
  forall a b, list_eqb eqb a b = true <-> a = b.
Proof.
  intros Heq. induction a as [|x a IH]; intros [|y b]; cbn [list_eqb]; split; intros H;
    try discriminate; try reflexivity.
  - apply andb_true_iff in H as [H1 H2]. apply Heq in H1. apply IH in H2.
    subst. reflexivity.
  - inversion H; subst. apply andb_true_iff. split.
    + apply Heq. reflexivity.
    + apply IH. reflexivity.
Qed.

Lemma eqb_sym_of_eq A (eqb : A -> A -> bool) :
  (forall x y, eqb x y = true <-> x = y) -> forall x y, eqb x y = eqb y x.
Proof.
  intros H x y.
  destruct (eqb x y) eqn:E1; destruct (eqb y x) eqn:E2; try reflexivity.
  - apply H in E1. subst y.
    assert (Ht : eqb x x = true) by (apply H; reflexivity).
    rewrite Ht in E2. discriminate.
  - apply H in E2. subst y.
    assert (Ht : eqb x x = true) by (apply H; reflexivity).
    rewrite Ht in E1. discriminate.
Qed.

Lemma eqb_refl_of_eq A (eqb : A -> A -> bool) :
  (forall x y, eqb x y = true <-> x = y) -> forall x, eqb x x = true.
Proof. intros H x. apply H. reflexivity. Qed.

Lemma row_eqb_eq (a b : row) : row_eqb a b = true <-> a = b.
Proof.
  destruct a as [e1 v1], b as [e2 v2]. unfold row_eqb. cbn [fst snd].
  rewrite andb_true_iff, eid_eqb_eq, (list_eqb_eq _ N.eqb N.eqb_eq). split.
  - intros [H1 H2]. subst. reflexivity.
  - intros H. inversion H. auto.
Qed.

Lemma loc_eqb_eq (a b : option (shape * nat)) : loc_eqb a b = true <-> a = b.
Proof.
  destruct a as [[s1 r1]|], b as [[s2 r2]|]; cbn [loc_eqb]; split; intros H;
    try discriminate; try reflexivity.
  - apply andb_true_iff in H as [H1 H2]. apply shape_eqb_eq in H1. apply Nat.eqb_eq in H2.
    subst. reflexivity.
  - inversion H; subst. apply andb_true_iff. split.
    + apply shape_eqb_refl.
    + apply Nat.eqb_refl.
Qed.

Lemma slot_eqb_eq (a b : slot) : slot_eqb a b = true <-> a = b.
Proof.
  destruct a as [g1 l1], b as [g2 l2]. unfold slot_eqb. cbn [s_gen s_loc].
  rewrite andb_true_iff, N.eqb_eq, loc_eqb_eq. split.
  - intros [H1 H2]. subst. reflexivity.
  - intros H. inversion H. auto.
Qed.

Definition rows_eqb_eq := list_eqb_eq _ row_eqb row_eqb_eq.
Definition slots_eqb_eq := list_eqb_eq _ slot_eqb slot_eqb_eq.
Definition nats_eqb_eq := list_eqb_eq _ Nat.eqb Nat.eqb_eq.
Definition vals_eqb_eq := list_eqb_eq _ N.eqb N.eqb_eq.

(** [archs_eqb] decides equality of the finite maps shape ↦ rows, *including*
    which shapes are present (an empty archetype is not the same as none). *)
Lemma archs_eqb_incl a b :
  forallb (fun x => match find_arch (a_shape x) b with
                    | Some y => list_eqb row_eqb (a_rows x) (a_rows y)
                    | None => false
                    end) a = true ->
  incl (map a_shape a) (map a_shape b).
Proof.
  intros H sh Hin. apply in_map_iff in Hin as [x [Hx Hin]]. subst sh.
  rewrite forallb_forall in H. specialize (H x Hin).
  destruct (find_arch (a_shape x) b) as [y|] eqn:E; [|discriminate].
  exact (find_arch_Some_In_shape _ _ _ E).
Qed.

Lemma archs_eqb_spec a b :
  NoDup (map a_shape a) -> NoDup (map a_shape b) ->
  (archs_eqb a b = true <->
   length a = length b /\
   forall sh, option_map a_rows (find_arch sh a) = option_map a_rows (find_arch sh b)).
Proof.
  intros NDa NDb. unfold archs_eqb. rewrite andb_true_iff, Nat.eqb_eq. split.
  - intros [HL HF]. split; [exact HL|]. intros sh.
    pose proof (archs_eqb_incl a b HF) as Hincl.
    rewrite forallb_forall in HF.
    destruct (find_arch sh a) as [x|] eqn:Ea.
    + specialize (HF x (@find_arch_In _ _ _ Ea)).
      rewrite (@find_arch_shape _ _ _ Ea) in HF.
      destruct (find_arch sh b) as [y|] eqn:Eb; [|discriminate].
      apply rows_eqb_eq in HF. cbn [option_map]. rewrite HF. reflexivity.
    + assert (Hincl' : incl (map a_shape b) (map a_shape a)).
      { apply NoDup_length_incl; [exact NDa | | exact Hincl].
        rewrite !map_length. lia. }
      apply find_arch_None in Ea.
      assert (Eb : find_arch sh b = None).
      { apply find_arch_None. intros Hb. apply Ea. apply Hincl'. exact Hb. }
      rewrite Eb. reflexivity.
  - intros [HL HF]. split; [exact HL|].
    apply forallb_forall. intros x Hx.
    specialize (HF (a_shape x)). rewrite (In_find_arch a x NDa Hx) in HF.
    cbn [option_map] in HF.
    destruct (find_arch (a_shape x) b) as [y|]; [|discriminate].
    cbn [option_map] in HF. inversion HF as [HF']. apply rows_eqb_eq. reflexivity.
Qed.

Lemma archs_eqb_sym a b :
  NoDup (map a_shape a) -> NoDup (map a_shape b) ->
  archs_eqb a b = archs_eqb b a.
Proof.
  intros NDa NDb.
  destruct (archs_eqb a b) eqn:E1; destruct (archs_eqb b a) eqn:E2; try reflexivity.
  - apply (archs_eqb_spec a b NDa NDb) in E1 as [HL HF].
    assert (H : archs_eqb b a = true).
    { apply (archs_eqb_spec b a NDb NDa). split; [symmetry; exact HL|].
      intros sh. symmetry. apply HF. }
    rewrite H in E2. discriminate.
  - apply (archs_eqb_spec b a NDb NDa) in E2 as [HL HF].
    assert (H : archs_eqb a b = true).
    { apply (archs_eqb_spec a b NDa NDb). split; [symmetry; exact HL|].
      intros sh. symmetry. apply HF. }
    rewrite H in E1. discriminate.
Qed.

Lemma archs_eqb_refl a : NoDup (map a_shape a) -> archs_eqb a a = true.
Proof. intros ND. apply (archs_eqb_spec a a ND ND). split; reflexivity. Qed.

Lemma archs_eqb_rows_of a b :
  NoDup (map a_shape a) -> NoDup (map a_shape b) ->
  archs_eqb a b = true -> forall sh, rows_of sh a = rows_of sh b.
Proof.
  intros NDa NDb H sh. apply (archs_eqb_spec a b NDa NDb) in H as [_ HF].
  rewrite !rows_of_alt. rewrite HF. reflexivity.
Qed.

Lemma world_eqb_true a b :
  world_eqb a b = true <->
  w_len a = w_len b /\ archs_eqb (w_archs a) (w_archs b) = true /\
  w_slots a = w_slots b /\ w_free a = w_free b /\ w_res a = w_res b.
Proof.
  unfold world_eqb.
  rewrite !andb_true_iff, Nat.eqb_eq, slots_eqb_eq, nats_eqb_eq, vals_eqb_eq.
  tauto.
Qed.

Theorem world_eqb_refl : forall w, Inv w -> world_eqb w w = true.
Proof.
  intros w I. apply world_eqb_true.
  split; [reflexivity|]. split; [apply archs_eqb_refl; exact (@inv_nodup w I)|].
  repeat split.
Qed.

Theorem world_eqb_sym : forall a b, Inv a -> Inv b -> world_eqb a b = world_eqb b a.
Proof.
  intros a b Ia Ib. unfold world_eqb.
  assert (H1 : Nat.eqb (w_len a) (w_len b) = Nat.eqb (w_len b) (w_len a))
    by apply Nat.eqb_sym.
  assert (H2 : archs_eqb (w_archs a) (w_archs b) = archs_eqb (w_archs b) (w_archs a))
    by (apply archs_eqb_sym; [exact (@inv_nodup a Ia) | exact (@inv_nodup b Ib)]).
  assert (H3 : list_eqb slot_eqb (w_slots a) (w_slots b) = list_eqb slot_eqb (w_slots b) (w_slots a))
    by apply (eqb_sym_of_eq _ _ slots_eqb_eq).
  assert (H4 : list_eqb Nat.eqb (w_free a) (w_free b) = list_eqb Nat.eqb (w_free b) (w_free a))
    by apply (eqb_sym_of_eq _ _ nats_eqb_eq).
  assert (H5 : list_eqb N.eqb (w_res a) (w_res b) = list_eqb N.eqb (w_res b) (w_res a))
    by apply (eqb_sym_of_eq _ _ vals_eqb_eq).
  rewrite H1, H2, H3, H4, H5. reflexivity.
Qed.

Theorem world_eqb_sound : forall a b, Inv a -> Inv b -> world_eqb a b = true ->
   feq (absf a) (absf b) /\ w_res a = w_res b /\ w_slots a = w_slots b /\ w_free a = w_free b /\ w_len a = w_len b.
Proof.
  intros a b Ia Ib H. apply world_eqb_true in H as [HL [HA [HS [HF HR]]]].
  split; [|auto].
  apply absf_rows_feq; [exact Ia | exact Ib |].
  apply archs_eqb_rows_of; [exact (@inv_nodup a Ia) | exact (@inv_nodup b Ib) | exact HA].
Qed.

(* equality ignores the type-id lookup table and the order of the archetype table *)
Theorem world_eqb_tid : forall w tid, Inv w ->
   world_eqb w (mkWorld (w_n w) (w_archs w) tid (w_slots w) (w_free w) (w_len w) (w_res w)) = true.
Proof.
  intros w tid I.
  change (world_eqb w (mkWorld (w_n w) (w_archs w) tid (w_slots w) (w_free w) (w_len w) (w_res w)))
    with (world_eqb w w).
  apply world_eqb_refl. exact I.
Qed.

(* changing the content makes worlds unequal: contrapositive of soundness, stated directly *)
Theorem world_eqb_differs : forall a b e, Inv a -> Inv b -> absf a e <> absf b e -> world_eqb a b = false.
Proof.
  intros a b e Ia Ib Hne. destruct (world_eqb a b) eqn:E; [|reflexivity].
  destruct (world_eqb_sound a b Ia Ib E) as [Hf _]. exfalso. apply Hne. apply Hf.
Qed.

Theorem world_eqb_res_differs : forall a b, Inv a -> Inv b -> w_res a <> w_res b -> world_eqb a b = false.
Proof.
  intros a b Ia Ib Hne. destruct (world_eqb a b) eqn:E; [|reflexivity].
  destruct (world_eqb_sound a b Ia Ib E) as [_ [Hr _]]. exfalso. apply Hne. exact Hr.
Qed.

(** Order of the archetype table is irrelevant (explicit form). *)
Lemma archs_eqb_perm a b :
  NoDup (map a_shape a) -> Permutation a b -> archs_eqb a b = true.
Proof.
  intros NDa HP.
  assert (NDb : NoDup (map a_shape b)).
  { apply (@Permutation_NoDup _ (map a_shape a)); [apply Permutation_map; exact HP | exact NDa]. }
  apply (archs_eqb_spec a b NDa NDb). split; [apply Permutation_length; exact HP|].
  intros sh. destruct (find_arch sh a) as [x|] eqn:Ea.
  - pose proof (@find_arch_In _ _ _ Ea) as Hin.
    apply (Permutation_in _ HP) in Hin.
    pose proof (In_find_arch b x NDb Hin) as Hb.
    rewrite (@find_arch_shape _ _ _ Ea) in Hb. rewrite Hb. reflexivity.
  - apply find_arch_None in Ea.
    assert (Eb : find_arch sh b = None).
    { apply find_arch_None. intros Hb. apply Ea.
      apply (Permutation_in _ (Permutation_sym (Permutation_map a_shape HP))). exact Hb. }
    rewrite Eb. reflexivity.
Qed.

Print Assumptions clone_world_safe.
Print Assumptions clone_world_same.
Print Assumptions clone_from_safe.
Print Assumptions clone_from_inv.
Print Assumptions clone_from_content.
Print Assumptions world_eqb_refl.
Print Assumptions world_eqb_sym.
Print Assumptions world_eqb_sound.
Print Assumptions world_eqb_tid.
Print Assumptions world_eqb_differs.
Print Assumptions world_eqb_res_differs.
