(** C04 — Every component value is dropped exactly once.
    Property theorems only; proofs are in Proofs/Ledger.v.
    [owned w] lists every value the world stores (tagged by component / resource
    position), [moved_in] what the caller hands over in an operation,
    [dropped evs] / [cloned evs] the user Drop / Clone callbacks the operation
    performs.  All statements are multiset equalities ([Permutation]), so they
    count multiplicities: "exactly once". *)
From Coq Require Import Permutation.
From Brood Require Import Base World Multi BaseFacts Inv StepInv CloneEq Ledger.

(** Conservation per operation: what was owned plus what was moved in is what
    is owned afterwards plus what was dropped (nothing is cloned): a value
    leaves the world iff it is dropped, at that moment, once. *)
Theorem C04_step : forall w o w' r evs, Inv w -> step w o = Some (w', r, evs) ->
  Permutation (owned w ++ moved_in (w_n w) o r) (owned w' ++ dropped evs) /\ cloned evs = [].
Proof. exact step_ledger. Qed.
Check (C04_step : forall w o w' r evs, Inv w -> step w o = Some (w', r, evs) ->
  Permutation (owned w ++ moved_in (w_n w) o r) (owned w' ++ dropped evs) /\ cloned evs = []).
Print Assumptions C04_step.

(** Whole histories. *)
Theorem C04_history : forall ops w w' ins drs, Inv w -> run_ledger w ops = Some (w', ins, drs) ->
  Permutation (owned w ++ ins) (owned w' ++ drs).
Proof. exact run_ledger_conserves. Qed.
Check (C04_history : forall ops w w' ins drs, Inv w -> run_ledger w ops = Some (w', ins, drs) ->
  Permutation (owned w ++ ins) (owned w' ++ drs)).
Print Assumptions C04_history.

(** Dropping the world drops exactly what it still owns. *)
Theorem C04_drop_world : forall w, dropped (drop_world w) = owned w /\ cloned (drop_world w) = [].
Proof. exact drop_world_ledger. Qed.
Check (C04_drop_world : forall w, dropped (drop_world w) = owned w /\ cloned (drop_world w) = []).
Print Assumptions C04_drop_world.

(** A whole life, including the final drop of the world: every value ever moved
    in is dropped exactly once. *)
Theorem C04_life : forall n res ops w ins drs,
  run_ledger (empty_world n res) ops = Some (w, ins, drs) ->
  Permutation (res_items res ++ ins) (drs ++ dropped (drop_world w)).
Proof. exact life_ledger. Qed.
Check (C04_life : forall n res ops w ins drs,
  run_ledger (empty_world n res) ops = Some (w, ins, drs) ->
  Permutation (res_items res ++ ins) (drs ++ dropped (drop_world w))).
Print Assumptions C04_life.

(** Values produced by clone are owned independently: the copy owns exactly
    one clone of every value, nothing is dropped. *)
Theorem C04_clone : forall w w' evs, clone_world w = Some (w', evs) ->
  dropped evs = [] /\ Permutation (cloned evs) (owned w').
Proof. exact clone_ledger. Qed.
Check (C04_clone : forall w w' evs, clone_world w = Some (w', evs) ->
  dropped evs = [] /\ Permutation (cloned evs) (owned w')).
Print Assumptions C04_clone.

(** clone_from: everything the destination owned is dropped (once), the result
    owns one clone of everything the source owns. *)
Theorem C04_clone_from : forall dst src w' evs, Inv dst -> Inv src -> w_n dst = w_n src ->
  clone_from_world dst src = Some (w', evs) ->
  Permutation (dropped evs) (owned dst) /\ Permutation (cloned evs) (owned src) /\
  Permutation (owned w') (owned src).
Proof. exact clone_from_ledger. Qed.
Check (C04_clone_from : forall dst src w' evs, Inv dst -> Inv src -> w_n dst = w_n src ->
  clone_from_world dst src = Some (w', evs) ->
  Permutation (dropped evs) (owned dst) /\ Permutation (cloned evs) (owned src) /\
  Permutation (owned w') (owned src)).
Print Assumptions C04_clone_from.

(** Non-vacuity, and the F2 regression (fixed by f1d6292): Entry::remove drops
    the detached component. *)
Example C04_example :
  match step (empty_world 2 []) (Insert [(0, 5%N); (1, 6%N)]) with
  | Some (w1, _, _) =>
      match step w1 (EntryRemove (0, 0%N) 1) with
      | Some (w2, _, evs) => dropped evs = [Comp 1 6%N] /\ owned w2 = [Comp 0 5%N]
      | None => False
      end
  | None => False
  end.
Proof. vm_compute. auto. Qed.
