#!/usr/bin/env python3
"""Generates build/resorder: one small function per order in which resource views can be requested
(every ordered sub-list of Resources!(R0, R1, R2, R3) and of Resources!(R0, R1, R2), through
view_resources; a sample through the resource views of a query and of a System), expected to
type-check and to return the resource of the requested type at each position (C15: "in whatever
order views are requested")."""
import itertools
import json
import os
import sys

HEADER = '''#![allow(unused, clippy::all)]
use brood::{query::{filter, result, Result, Views}, registry, system::System, Query, Registry, Resources, World};

macro_rules! res { ($($n:ident),*) => { $( #[derive(Debug, Clone, PartialEq)] pub struct $n(pub u64); )* } }
res!(R0, R1, R2, R3);
#[derive(Debug, Clone, PartialEq)] pub struct A(pub u64);
pub type Reg = Registry!(A);
pub type W4 = World<Reg, Resources!(R0, R1, R2, R3)>;
pub type W3 = World<Reg, Resources!(R0, R1, R2)>;
pub fn w4() -> W4 { World::with_resources(brood::resources!(R0(100), R1(101), R2(102), R3(103))) }
pub fn w3() -> W3 { World::with_resources(brood::resources!(R0(100), R1(101), R2(102))) }
'''


def programs():
    out = []
    k = 0
    for n, wt in ((4, "W4"), (3, "W3")):
        for r in range(0, n + 1):
            for perm in itertools.permutations(range(n), r):
                if n == 3 and r < 3:
                    continue
                muts = [((k + j) % 3 == 0) for j in range(len(perm))]
                tys = ", ".join(("&mut R%d" if m else "&R%d") % (i,) for i, m in zip(perm, muts))
                vs = ", ".join("v%d" % j for j in range(len(perm)))
                vals = ", ".join("v%d.0" % j for j in range(len(perm)))
                body = ("pub fn f(w: &mut %s) -> Vec<u64> { let result!(%s) = w.view_resources::<Views!(%s), _>(); vec![%s] }"
                        % (wt, vs, tys, vals))
                out.append({"name": "vr%d_%s" % (n, "".join(map(str, perm)) or "none"), "n": n, "order": list(perm),
                            "via": "view_resources", "body": body})
                k += 1
    # the resource views of a query and of a system go through the same bound: rotations and reversals
    for perm in [(1, 2, 0), (2, 0, 1), (2, 1, 0), (1, 2, 3, 0), (3, 0, 1, 2), (0, 2, 3, 1), (3, 2, 1, 0), (1, 3, 0, 2)]:
        tys = ", ".join("&R%d" % i for i in perm)
        vs = ", ".join("v%d" % j for j in range(len(perm)))
        vals = ", ".join("v%d.0" % j for j in range(len(perm)))
        body = ("pub fn f(w: &mut W4) -> Vec<u64> { let r = w.query(Query::<Views!(), filter::None, Views!(%s)>::new()); "
                "let result!(%s) = r.resources; vec![%s] }" % (tys, vs, vals))
        out.append({"name": "q4_%s" % "".join(map(str, perm)), "n": 4, "order": list(perm), "via": "query", "body": body})
        body = ("pub struct S(pub Vec<u64>); impl System for S { type Filter = filter::None; type Views<'a> = Views!(); "
                "type ResourceViews<'a> = Views!(%s); type EntryViews<'a> = Views!(); "
                "fn run<'a, R, S_, I, E>(&mut self, q: Result<'a, R, S_, I, Self::ResourceViews<'a>, Self::EntryViews<'a>, E>) "
                "where R: registry::Registry, I: Iterator<Item = Self::Views<'a>> { let result!(%s) = q.resources; self.0 = vec![%s]; } } "
                "pub fn f(w: &mut W4) -> Vec<u64> { let mut s = S(Vec::new()); w.run_system(&mut s); s.0 }" % (tys.replace("&R", "&'a R"), vs, vals))
        out.append({"name": "s4_%s" % "".join(map(str, perm)), "n": 4, "order": list(perm), "via": "system", "body": body})
    return out


def emit(outdir, repo="/repo"):
    os.makedirs(os.path.join(outdir, "src"), exist_ok=True)
    progs = programs()
    lines = HEADER.split("\n")
    for p in progs:
        p["first_line"] = len(lines) + 1
        lines.append("pub mod p_%s { use super::*; %s }" % (p["name"], p["body"]))
        p["last_line"] = len(lines)
    lines.append("pub fn all() -> Vec<(&'static str, Vec<u64>)> { let mut out = Vec::new();")
    for p in progs:
        lines.append("    { let mut w = w%d(); out.push((\"%s\", p_%s::f(&mut w))); }" % (p["n"], p["name"], p["name"]))
    lines.append("    out }")
    _w(os.path.join(outdir, "src", "lib.rs"), "\n".join(lines) + "\n")
    _w(os.path.join(outdir, "src", "main.rs"),
       "fn main() { for (n, v) in resorder::all() { println!(\"{} {}\", n, v.iter().map(|x| x.to_string()).collect::<Vec<_>>().join(\" \")); } }\n")
    _w(os.path.join(outdir, "Cargo.toml"),
       "[package]\nname = \"resorder\"\nversion = \"0.0.0\"\nedition = \"2021\"\n\n[dependencies]\nbrood = { path = \"%s\" }\n\n[workspace]\n" % repo)
    return progs


def _w(path, text):
    if os.path.exists(path) and open(path).read() == text:
        return
    with open(path, "w") as f:
        f.write(text)


if __name__ == "__main__":
    ps = emit(sys.argv[1])
    print(json.dumps({"programs": len(ps)}))
