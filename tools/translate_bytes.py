#!/usr/bin/env python3
"""Translator for the identifier-byte arithmetic of `Entry::add` / `Entry::remove`
(src/world/entry.rs) and of the padding check of a deserialized identifier
(src/archetype/identifier/impl_serde.rs): regenerates coq/Gen/Bytes.v from /repo's
current source.

What is read (comment-stripped):
  * `Entry::add`:    `*unsafe { raw_identifier_buffer.get_unchecked_mut(IDX) } |= RHS;`
  * `Entry::remove`: `*unsafe { raw_identifier_buffer.get_unchecked_mut(IDX) } ^= RHS;`
  * `Entry::remove`: the loop over `preceding_identifier_buffer.iter_mut().enumerate()`
    that masks the identifier down to the components preceding the removed one
    (an if / else-if chain of `*byte = E;` / `*byte OP= E;`).

Every Rust integer expression is translated structurally (Rust operator
precedence) into Coq `N` arithmetic; a value stored into a byte is truncated to
8 bits.  The theorems of Proofs/PackedFacts.v are ABOUT these generated
definitions, so a changed operator or operand breaks a proof."""
import json
import os
import re
import sys

sys.path.insert(0, os.path.dirname(os.path.abspath(__file__)))
from translate import ParseFailure, read  # noqa: E402
from translate_facts import fn_bodies  # noqa: E402

# ------------------------------------------------------------------ Rust integer expressions -> Coq N

TOK = re.compile(r"\s*(?:(\d+)(?:_?(?:usize|u8|u32|u64))?|([A-Za-z_]\w*)|(&&|\|\||<<|>>|==|!=|<=|>=|[-+*/%&|^<>()]))")
PREC = {"||": -2, "&&": -1, "|": 1, "^": 2, "&": 3, "==": 0, "!=": 0, "<": 0, ">": 0, "<=": 0, ">=": 0, "<<": 4, ">>": 4, "+": 5, "-": 5,
        "*": 6, "/": 6, "%": 6}
COQ = {"|": "N.lor", "^": "N.lxor", "&": "N.land", "<<": "N.shiftl", ">>": "N.shiftr", "+": "N.add", "-": "N.sub", "*": "N.mul",
       "/": "N.div", "%": "N.modulo"}


def tokens(s):
    out, i = [], 0
    s = s.strip()
    while i < len(s):
        m = TOK.match(s, i)
        if not m:
            raise ParseFailure("cannot tokenise expression %r at %d" % (s, i))
        out.append(m.group(1) and ("int", m.group(1)) or m.group(2) and ("id", m.group(2)) or ("op", m.group(3)))
        i = m.end()
    return out


def parse_expr(s, idents, u8_shifts=False):
    """u8_shifts: the operands are `u8`s, so `a << b` keeps the low 8 bits only."""
    toks = tokens(s)
    pos = [0]

    def peek():
        return toks[pos[0]] if pos[0] < len(toks) else None

    def atom():
        t = peek()
        if t is None:
            raise ParseFailure("unexpected end of expression %r" % s)
        pos[0] += 1
        if t[0] == "int":
            return "%s" % t[1]
        if t[0] == "id":
            if t[1] not in idents:
                raise ParseFailure("unknown identifier %s in %r" % (t[1], s))
            return t[1]
        if t in (("op", "*"), ("op", "&")):
            return atom()          # dereference / reference of an integer: the integer
        if t == ("op", "("):
            e = binary(-2)
            if peek() != ("op", ")"):
                raise ParseFailure("missing ) in %r" % s)
            pos[0] += 1
            return e
        raise ParseFailure("unexpected token %r in %r" % (t, s))

    def binary(minp):
        lhs = atom()
        while True:
            t = peek()
            if t is None or t[0] != "op" or t[1] not in PREC or PREC[t[1]] < minp:
                return lhs
            op = t[1]
            pos[0] += 1
            rhs = binary(PREC[op] + 1)
            if op == "<<" and u8_shifts:
                lhs = "(N.land (N.shiftl %s %s) 255)" % (lhs, rhs)
            elif op == "&&":
                lhs = "(andb %s %s)" % (lhs, rhs)
            elif op == "||":
                lhs = "(orb %s %s)" % (lhs, rhs)
            elif op in COQ:
                lhs = "(%s %s %s)" % (COQ[op], lhs, rhs)
            elif op == "==":
                lhs = "(N.eqb %s %s)" % (lhs, rhs)
            elif op == "!=":
                lhs = "(negb (N.eqb %s %s))" % (lhs, rhs)
            elif op == ">":
                lhs = "(N.ltb %s %s)" % (rhs, lhs)
            elif op == "<":
                lhs = "(N.ltb %s %s)" % (lhs, rhs)
            elif op == ">=":
                lhs = "(N.leb %s %s)" % (rhs, lhs)
            elif op == "<=":
                lhs = "(N.leb %s %s)" % (lhs, rhs)

    e = binary(-2)
    if pos[0] != len(toks):
        raise ParseFailure("trailing tokens in %r" % s)
    return e


def assign(op, rhs):
    """`*byte OP= rhs` as a u8 store."""
    if op == "=":
        return "(N.land %s 255)" % rhs
    return "(N.land (%s byte %s) 255)" % (COQ[op[:-1]], rhs)


def strip(s):
    s = re.sub(r"//[^\n]*", "", s)
    return s


def body_of(src, name):
    bs = [b for q, n, b in fn_bodies(src) if n == name]
    if not bs:
        raise ParseFailure("src/world/entry.rs: fn %s not found" % name)
    return bs[0]


def translate():
    src = strip(read("src/world/entry.rs"))
    out = {}
    for fn, op, key in (("add", "|=", "entry_add"), ("remove", "^=", "entry_remove")):
        b = body_of(src, fn)
        m = re.search(r"\*\s*unsafe\s*\{\s*raw_identifier_buffer\s*\.\s*get_unchecked_mut\s*\(([^;{}]*?)\)\s*\}\s*(\|=|\^=|&=|=)\s*([^;]*);", b)
        if not m:
            raise ParseFailure("Entry::%s: identifier byte update not found" % fn)
        out[key + "_byte_index"] = parse_expr(m.group(1), {"component_index"})
        out[key + "_byte"] = assign(m.group(2), parse_expr(m.group(3), {"component_index"}))
        out[key + "_op"] = m.group(2)
    b = body_of(src, "remove")
    m = re.search(r"for\s*\(\s*index\s*,\s*byte\s*\)\s*in\s*preceding_identifier_buffer\s*\.\s*iter_mut\s*\(\s*\)\s*\.\s*enumerate\s*\(\s*\)\s*\{", b)
    if not m:
        raise ParseFailure("Entry::remove: masking loop not found")
    i = m.end()
    d, k = 1, i
    while k < len(b) and d:
        d += {"{": 1, "}": -1}.get(b[k], 0)
        k += 1
    loop = b[i:k - 1].strip()
    # if COND { *byte OP E; } else if COND { ... } [else { ... }]
    branches = []
    rest = loop
    while rest:
        m = re.match(r"(?:else\s+)?if\s+(.*?)\{\s*\*\s*byte\s*(=|&=|\|=|\^=)\s*([^;]*);\s*\}\s*", rest, re.S)
        if m:
            branches.append((parse_expr(m.group(1), {"index", "component_index"}),
                             assign(m.group(2), parse_expr(m.group(3), {"index", "component_index"}))))
            rest = rest[m.end():]
            continue
        m = re.match(r"else\s*\{\s*\*\s*byte\s*(=|&=|\|=|\^=)\s*([^;]*);\s*\}\s*$", rest, re.S)
        if m:
            branches.append((None, assign(m.group(1), parse_expr(m.group(2), {"index", "component_index"}))))
            rest = ""
            continue
        raise ParseFailure("Entry::remove: masking loop has an unexpected shape: %r" % rest[:80])
    if not branches:
        raise ParseFailure("Entry::remove: masking loop is empty")
    e = "byte"
    for cond, val in reversed(branches):
        e = val if cond is None else "(if %s then %s else %s)" % (cond, val, e)
    out["entry_remove_mask_byte"] = e
    # what the masked identifier is used for
    out["mask_feeds_size_of_components"] = bool(re.search(
        r"let\s+offset\s*=\s*unsafe\s*\{\s*archetype::Identifier::<Registry>::new\(preceding_identifier_buffer\)\s*\}\s*\.\s*size_of_components\(\)\s*;", b))
    out["drop_reads_at_offset"] = bool(re.search(
        r"drop\(\s*unsafe\s*\{\s*current_component_bytes\s*\.\s*as_ptr\(\)\s*\.\s*add\(offset\)\s*\.\s*cast::<Component>\(\)\s*\.\s*read_unaligned\(\)\s*\}\s*\)", b))
    out["mask_from_previous_identifier"] = bool(re.search(r"let\s+mut\s+preceding_identifier_buffer\s*=\s*previous_identifier\s*\.\s*as_vec\(\)\s*;", b)
                                                and re.search(r"let\s+previous_identifier\s*=\s*self\s*\.\s*location\s*\.\s*identifier\s*;", b))
    out.update(translate_padding())
    out.update(translate_iter())
    return out


def translate_padding():
    """archetype/identifier/impl_serde.rs: the check that the bits past R::LEN of the last byte are clear."""
    src = strip(read("src/archetype/identifier/impl_serde.rs")).replace("R::LEN", "len")
    m = re.search(r"if\s+([^{}]*?)\{\s*let\s+byte\s*=\s*unsafe\s*\{\s*buffer\s*\.\s*get_unchecked\(([^{};]*)\)\s*\}\s*;\s*"
                  r"let\s+bit\s*=\s*([^;]*);\s*if\s+([^{}]*?)\{\s*return\s+Err\(", src, re.S)
    if not m:
        raise ParseFailure("identifier/impl_serde.rs: padding check not found")
    return {"padding_guard": parse_expr(m.group(1), {"len"}),
            "padding_byte_index": parse_expr(m.group(2), {"len"}),
            "padding_bit": parse_expr(m.group(3), {"len"}),
            "padding_reject": parse_expr(m.group(4), {"byte", "bit"}, u8_shifts=True)}


def translate_iter():
    """archetype/identifier/iter.rs: `Iter::next` — when it ends, which bit it returns, when it moves to the next
    byte and how it shifts the current one; `Iter::new` — what the first current byte is."""
    src = strip(read("src/archetype/identifier/iter.rs"))
    b = body_of(src, "next")
    n = re.sub(r"\s+", " ", b).strip()
    m = re.match(r"if (.*?) \{ None \} else \{ let result = (.*?); self\.position \+= 1; if (.*?) \{ "
                 r"self\.pointer = unsafe \{ self\.pointer\.add\(1\) \}; self\.current = unsafe \{ \*self\.pointer \}; \} "
                 r"else \{ self\.current >>= (\d+); \} Some\(result\) \}$", n)
    if not m:
        raise ParseFailure("identifier/iter.rs: Iter::next has an unexpected shape: %r" % n[:200])

    def ex(e, ids):
        return parse_expr(e.replace("self.position", "position").replace("self.current", "current").replace("R::LEN", "len"), ids)
    out = {"iter_end": ex(m.group(1), {"position", "len"}), "iter_result": ex(m.group(2), {"current"}),
           "iter_reload": ex(m.group(3), {"position", "len"}), "iter_shift": "(N.shiftr current %s)" % m.group(4)}
    nb = re.sub(r"\s+", " ", body_of(src, "new"))
    out["iter_new_reads_first_byte"] = bool(re.search(
        r"current: if R::LEN > 0 \{ unsafe \{ \*pointer \} \} else \{ 0 \}, position: 0,", nb))
    return out


def emit(t):
    b = lambda x: "true" if x else "false"  # noqa: E731
    o = ["(** @generated by tools/translate_bytes.py from /repo/src/world/entry.rs — do not edit.",
         "    The identifier-byte arithmetic of Entry::add / Entry::remove in N arithmetic (u8 stores truncated). *)",
         "From Coq Require Import NArith Bool.", "Local Open Scope N_scope.", "",
         "Definition entry_add_byte_index (component_index : N) : N := %s." % t["entry_add_byte_index"],
         "Definition entry_add_byte (component_index byte : N) : N := %s." % t["entry_add_byte"],
         "Definition entry_remove_byte_index (component_index : N) : N := %s." % t["entry_remove_byte_index"],
         "Definition entry_remove_byte (component_index byte : N) : N := %s." % t["entry_remove_byte"],
         "Definition entry_remove_mask_byte (index component_index byte : N) : N := %s." % t["entry_remove_mask_byte"],
         "(* archetype/identifier/impl_serde.rs: the padding check of a deserialized identifier (u8 operands) *)",
         "Definition padding_guard (len : N) : bool := %s." % t["padding_guard"],
         "Definition padding_byte_index (len : N) : N := %s." % t["padding_byte_index"],
         "Definition padding_bit (len : N) : N := %s." % t["padding_bit"],
         "Definition padding_reject (byte bit : N) : bool := %s." % t["padding_reject"],
         "Definition fact_mask_feeds_size_of_components : bool := %s." % b(t["mask_feeds_size_of_components"]),
         "Definition fact_drop_reads_at_offset : bool := %s." % b(t["drop_reads_at_offset"]),
         "Definition fact_mask_from_previous_identifier : bool := %s." % b(t["mask_from_previous_identifier"]),
         "(* archetype/identifier/iter.rs: the bit iterator every column walk is driven by *)",
         "Definition iter_end (position len : N) : bool := %s." % t["iter_end"],
         "Definition iter_result (current : N) : bool := %s." % t["iter_result"],
         "Definition iter_reload (position len : N) : bool := %s." % t["iter_reload"],
         "Definition iter_shift (current : N) : N := %s." % t["iter_shift"],
         "Definition fact_iter_new_reads_first_byte : bool := %s." % b(t["iter_new_reads_first_byte"])]
    return "\n".join(o) + "\n"


def main():
    out = sys.argv[1]
    try:
        text = emit(translate())
    except ParseFailure as e:
        print("PARSE-FAILED " + json.dumps(str(e)))
        sys.exit(3)
    except Exception as e:  # noqa: BLE001
        print("PARSE-FAILED " + json.dumps("internal: %r" % e))
        sys.exit(3)
    old = open(out).read() if os.path.exists(out) else None
    if old != text:
        with open(out, "w") as fh:
            fh.write(text)
        print("regenerated-changed")
    else:
        print("regenerated-identical")


if __name__ == "__main__":
    main()
