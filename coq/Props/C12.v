(** C12 — Independent tasks are actually allowed to run in parallel; schedules terminate.
    Property theorems only; proofs are in Proofs/SchedFacts.v. *)
From Coq Require Import Permutation.
From Brood Require Import Base Kinds Tables Sched SchedSpec SchedFacts.

(** The Verifier table is not over-conservative: on views of equal length it says
    Cut exactly when some component is viewed by both, mutably by one. *)
Theorem C12_verifier_exact : forall v c, length v = length c ->
  (verify v c = Some Cut <-> views_conflict v c = true) /\
  (verify v c = Some Append <-> views_conflict v c = false).
Proof. exact verify_conflict. Qed.
Check (C12_verifier_exact : forall v c, length v = length c ->
  (verify v c = Some Cut <-> views_conflict v c = true) /\
  (verify v c = Some Append <-> views_conflict v c = false)).
Print Assumptions C12_verifier_exact.

(** The stager is the greedy in-order grouping: the stages are consecutive
    blocks of the declared order, non-empty, without internal conflict, and a new
    stage is cut only at a task that statically conflicts with a task of the
    stage being closed. *)
Theorem C12_greedy : forall n nres tasks stages,
  stages_of n nres tasks = Some stages ->
  concat stages = seq 0 (length tasks) /\
  Forall (pairwise_sok n nres tasks) stages /\
  boundaries_ok n nres tasks stages /\
  ~ In [] stages.
Proof.
  intros n nres tasks stages HS. unfold stages_of in HS.
  destruct (@stager_spec n nres tasks (combine (seq 0 (length tasks)) tasks) [] [] [] stages) as (C & F & _ & B & _ & NE).
  - apply Forall_forall. intros p Hp. destruct (combine_seq_nth tasks 0 p Hp) as [_ E].
    rewrite Nat.sub_0_r in E. exact E.
  - split; constructor.
  - intros x y Hx. destruct Hx.
  - intros (x & Hx & _). destruct Hx.
  - rewrite map_fst_combine_seq. apply seq_NoDup.
  - exact HS.
  - cbn [rev app] in C. rewrite map_fst_combine_seq in C. auto.
Qed.
Check (C12_greedy : forall n nres tasks stages,
  stages_of n nres tasks = Some stages ->
  concat stages = seq 0 (length tasks) /\
  Forall (pairwise_sok n nres tasks) stages /\
  boundaries_ok n nres tasks stages /\
  ~ In [] stages).
Print Assumptions C12_greedy.

(** Tasks of one stage that run in their own stage are pairwise under a common
    rayon::join (any world, any flags). *)
Theorem C12_stage_parallel : forall n nres tasks archs stage hr b rc next T nh,
  stage_run n nres tasks archs stage hr b rc next = Some (T, nh) ->
  forall x y, In x (unflagged stage hr) -> In y (unflagged stage hr) -> x <> y -> par_in T x y.
Proof. intros. eapply stage_run_par; eauto. Qed.
Check (C12_stage_parallel : forall n nres tasks archs stage hr b rc next T nh,
  stage_run n nres tasks archs stage hr b rc next = Some (T, nh) ->
  forall x y, In x (unflagged stage hr) -> In y (unflagged stage hr) -> x <> y -> par_in T x y).
Print Assumptions C12_stage_parallel.

(** On a world without archetypes (pure static staging, nothing is started
    early) every two tasks of one stage may run simultaneously. *)
Theorem C12_static_parallel : forall n nres tasks stages T,
  stages_of n nres tasks = Some stages ->
  run_schedule n nres tasks [] = Some (stages, T) ->
  forall st x y, In st stages -> In x st -> In y st -> x <> y -> par_in T x y.
Proof.
  intros n nres tasks stages T HS HR st x y Hst Hx Hy Hne.
  unfold run_schedule in HR. rewrite HS in HR.
  destruct (stages_run n nres tasks [] stages _) as [T'|] eqn:E; [|discriminate].
  inversion HR; subst T'.
  replace (match stages with s :: _ => s | [] => [] end) with (hd [] stages) in E by (destruct stages; reflexivity).
  exact (@stages_run_static n nres tasks stages T E st x y Hst Hx Hy Hne).
Qed.
Check (C12_static_parallel : forall n nres tasks stages T,
  stages_of n nres tasks = Some stages ->
  run_schedule n nres tasks [] = Some (stages, T) ->
  forall st x y, In st stages -> In x st -> In y st -> x <> y -> par_in T x y).
Print Assumptions C12_static_parallel.

(** Termination: the run of every accepted schedule is a finite fork/join term
    (the model function is total), so run_schedule returns on any pool size given
    rayon's join contract (both closures run exactly once, join returns after both). *)
Theorem C12_terminates : forall n nres tasks archs stages, NoDup archs ->
  stages_of n nres tasks = Some stages -> exists T, run_schedule n nres tasks archs = Some (stages, T).
Proof.
  intros n nres tasks archs stages ND HS.
  destruct (@run_schedule_facts n nres tasks archs ND stages HS) as (T & E & _). exists T. exact E.
Qed.
Check (C12_terminates : forall n nres tasks archs stages, NoDup archs ->
  stages_of n nres tasks = Some stages -> exists T, run_schedule n nres tasks archs = Some (stages, T)).
Print Assumptions C12_terminates.

(** Non-vacuity: two readers and a disjoint writer share one stage. *)
Example C12_example :
  stages_of 3 0 [mkTask [VComp KRef 0] FNone [] []; mkTask [VComp KRef 0; VComp KOptRef 1] FNone [] [];
                 mkTask [VComp KMut 2] FNone [] []; mkTask [VComp KMut 0] FNone [] []]
  = Some [[0; 1; 2]; [3]].
Proof. vm_compute. reflexivity. Qed.
