(** [Archetype::clone_from] at the cell level ([archetype/impl_clone.rs],
    [registry/clone/sealed.rs]: [clone_from_components]), with a fault parameter over BOTH kinds of
    user callbacks it runs: the k-th [Clone] or the k-th [Drop] panics.

    Each destination column is rebuilt as a [Vec<C>] of the archetype's length and
    [Vec::clone_from] is called on it with the source column:
      1. [truncate(source.len())]: the local length is set first, then the surplus values are
         dropped in place (the slice drop glue goes on after one panic);
      2. [clone_from_slice] on the common prefix: [dst[i] = src[i].clone()] — a [Clone] callback
         (a panic changes nothing), then drop-and-replace of the old value (the new value is in
         place on both paths);
      3. [extend_from_slice] of the rest: each pushed value is a [Clone] callback, the local length
         counts what has been pushed.
    (The reallocation step 3 may need is the heap level's business: [cgrow_unwound] in Heap.v.)

    Two things are read off the source: whether the archetype holds NO rows while its columns are
    being replaced ([fact_clone_from_hides_rows_first]) — otherwise an unwound call leaves the old
    length — and, at the heap level, whether pointer and capacity of the column being cloned into
    reach the archetype also while unwinding ([fact_clone_from_writes_back_on_unwind]).
    Definitions only. *)
From Brood Require Export Phys.

Inductive cb := CbDrop | CbClone.
Definition cb_eqb (a b : cb) : bool :=
  match a, b with CbDrop, CbDrop | CbClone, CbClone => true | _, _ => false end.

(** [Some (k, n)]: the n-th callback of kind k from now on panics *)
Definition kfault := option (cb * nat).
Definition ktick (k : cb) (f : kfault) : kfault * bool :=
  match f with
  | None => (None, false)
  | Some (k', n) =>
      if cb_eqb k k' then match n with 0 => (None, true) | S m => (Some (k', m), false) end
      else (f, false)
  end.

(** dropping a run of cells in place (slice drop glue: goes on after one panic) *)
Fixpoint kdrop_cells (c : nat) (cells : list cell) (f : kfault) : list pevent * kfault * bool :=
  match cells with
  | [] => ([], f, false)
  | x :: t =>
      let '(f', panics) := ktick CbDrop f in
      let '(evs, f'', p) := kdrop_cells c t f' in
      (drop_cell c x :: evs, f'', panics || p)
  end.

(** step 2: the common prefix, cell by cell.  Returns the new cells of the prefix. *)
Fixpoint assign_prefix (c : nat) (dst : list cell) (src : list val) (f : kfault)
  : list cell * list pevent * kfault * bool :=
  match dst, src with
  | x :: dst', v :: src' =>
      let '(f1, pc) := ktick CbClone f in
      if pc then (x :: dst', [], f1, true)
      else
        let '(f2, pd) := ktick CbDrop f1 in
        if pd then (Owned v :: dst', [drop_cell c x], f2, true)
        else
          let '(r, evs, f3, p) := assign_prefix c dst' src' f2 in
          (Owned v :: r, drop_cell c x :: evs, f3, p)
  | _, _ => (dst, [], f, false)
  end.

(** step 3: the values pushed, and how many *)
Fixpoint push_clones (src : list val) (f : kfault) : list cell * kfault * bool :=
  match src with
  | [] => ([], f, false)
  | v :: src' =>
      let '(f1, pc) := ktick CbClone f in
      if pc then ([], f1, true)
      else let '(r, f2, p) := push_clones src' f1 in (Owned v :: r, f2, p)
  end.

(** [Vec::clone_from] on one column: cells (the whole allocation), the first [la] of which are the
    Vec; returns the cells, the local length the Vec ended with, events, fault, unwound *)
Definition vec_clone_from (c : nat) (col : list cell) (la : nat) (src : list val) (f : kfault)
  : list cell * nat * list pevent * kfault * bool :=
  let lb := length src in
  let keep := Nat.min la lb in
  (* 1. truncate *)
  let '(evs1, f1, p1) := kdrop_cells c (firstn (la - keep) (skipn keep col)) f in
  let col1 := firstn keep col ++ map stale (firstn (la - keep) (skipn keep col)) ++ skipn la col in
  if p1 then (col1, keep, evs1, f1, true)
  else
    (* 2. common prefix *)
    let '(pre, evs2, f2, p2) := assign_prefix c (firstn keep col1) (firstn keep src) f1 in
    let col2 := pre ++ skipn keep col1 in
    if p2 then (col2, keep, evs1 ++ evs2, f2, true)
    else
      (* 3. extension (over the spare cells) *)
      let '(pushed, f3, p3) := push_clones (skipn keep src) f2 in
      let col3 := firstn keep col2 ++ pushed ++ skipn (keep + length pushed) col2 in
      (col3, keep + length pushed, evs1 ++ evs2, f3, p3).

(** [clone_from_components]: column by column; a panic stops the walk *)
Fixpoint clone_from_cols (comps : list nat) (cols : list (list cell)) (la : nat) (src : list (list val)) (f : kfault)
  : list (list cell) * list pevent * bool :=
  match comps, cols, src with
  | c :: comps', col :: cols', s :: src' =>
      let '(col', _, evs, f', p) := vec_clone_from c col la s f in
      if p then (col' :: cols', evs, true)
      else let '(r, evs', p') := clone_from_cols comps' cols' la src' f' in (col' :: r, evs ++ evs', p')
  | _, _, _ => (cols, [], false)
  end.

(** [Archetype::clone_from]: [lb] is the source's length (every source column has it) *)
Definition p_clone_from_gen (hide_first : bool) (a : parch) (src : list (list val)) (lb : nat) (f : kfault)
  : parch * list pevent * bool :=
  let '(cols, evs, unwound) := clone_from_cols (bits_on (pa_shape a)) (pa_cols a) (pa_len a) src f in
  (mkPArch (pa_shape a) cols (if unwound then (if hide_first then 0 else pa_len a) else lb), evs, unwound).

Definition p_clone_from (a : parch) (src : list (list val)) (lb : nat) (f : kfault) : parch * list pevent * bool :=
  p_clone_from_gen fact_clone_from_hides_rows_first a src lb f.
