(** C02 — Identifiers are never confused: unique, stable while live, dead once removed.
    Property theorems only; proofs are in Proofs/Fresh.v.
    Generations are u64 with wrapping_add in the model ([gen_next] = (g+1) mod 2^64),
    so freshness carries the explicit hypothesis that the history is shorter than
    2^64 operations — the one place the theorem is weaker than the property text,
    and necessarily so: [C02_unbounded_refuted] shows the statement without it is
    false (insert/remove 2^64 times and the identifier (0,0) is issued again). *)
From Brood Require Import Base World Multi Spec BaseFacts Inv StepInv CloneEq Fresh.
From Brood Require Import Facts Resolve ResolveFacts.

(** Every identifier returned by insert/extend differs from every identifier
    returned before it in that world's lifetime (and identifiers of one batch
    differ from one another). *)
Theorem C02_fresh_step : forall w o w' r evs issued k,
  Inv w -> Hist w issued -> Room w (k + 1) -> step w o = Some (w', r, evs) ->
  (k < gen_modulus)%N ->
  NoDup (out_ids r) /\ (forall e, In e (out_ids r) -> ~ In e issued) /\
  Hist w' (out_ids r ++ issued) /\ Room w' k.
Proof. exact step_fresh. Qed.
Check (C02_fresh_step : forall w o w' r evs issued k,
  Inv w -> Hist w issued -> Room w (k + 1) -> step w o = Some (w', r, evs) ->
  (k < gen_modulus)%N ->
  NoDup (out_ids r) /\ (forall e, In e (out_ids r) -> ~ In e issued) /\
  Hist w' (out_ids r ++ issued) /\ Room w' k).
Print Assumptions C02_fresh_step.

Theorem C02_fresh : forall n res ops w issued,
  (N.of_nat (length ops) < gen_modulus)%N ->
  run_issued (empty_world n res) ops [] = Some (w, issued) -> NoDup issued.
Proof. exact run_issued_nodup. Qed.
Check (C02_fresh : forall n res ops w issued,
  (N.of_nat (length ops) < gen_modulus)%N ->
  run_issued (empty_world n res) ops [] = Some (w, issued) -> NoDup issued).
Print Assumptions C02_fresh.

(** ... and from any valid world (a clone, a deserialized world) with head-room. *)
Theorem C02_fresh_from : forall w0 ops w issued0 issued,
  Inv w0 -> Hist w0 issued0 -> NoDup issued0 -> Room w0 (N.of_nat (length ops)) ->
  (N.of_nat (length ops) < gen_modulus)%N ->
  run_issued w0 ops issued0 = Some (w, issued) -> NoDup issued.
Proof. exact run_issued_nodup_from. Qed.
Check (C02_fresh_from : forall w0 ops w issued0 issued,
  Inv w0 -> Hist w0 issued0 -> NoDup issued0 -> Room w0 (N.of_nat (length ops)) ->
  (N.of_nat (length ops) < gen_modulus)%N ->
  run_issued w0 ops issued0 = Some (w, issued) -> NoDup issued).
Print Assumptions C02_fresh_from.

Theorem C02_unbounded_refuted : ~ unbounded_statement.
Proof. exact run_issued_nodup_from_unbounded_false. Qed.
Check (C02_unbounded_refuted : ~ (forall w0 ops w issued0 issued,
      Inv w0 -> Hist w0 issued0 -> NoDup issued0 -> Room w0 (N.of_nat (length ops)) ->
      run_issued w0 ops issued0 = Some (w, issued) -> NoDup issued)).
Print Assumptions C02_unbounded_refuted.

(** A live identifier keeps resolving through every operation that is not
    aimed at it: moves of that entity or of others, shape changes, shrink. *)
Theorem C02_stable : forall w o w' r evs e,
  Inv w -> is_active w e = true -> step w o = Some (w', r, evs) ->
  (match o with Remove e' => e' <> e | Clear _ => False | _ => True end) ->
  is_active w' e = true.
Proof. exact step_stable. Qed.
Check (C02_stable : forall w o w' r evs e,
  Inv w -> is_active w e = true -> step w o = Some (w', r, evs) ->
  (match o with Remove e' => e' <> e | Clear _ => False | _ => True end) ->
  is_active w' e = true).
Print Assumptions C02_stable.

(** Once removed or cleared, an identifier does not resolve ... *)
Theorem C02_remove_kills : forall w e w' r evs, Inv w -> step w (Remove e) = Some (w', r, evs) ->
  is_active w' e = false.
Proof. exact remove_kills. Qed.
Check (C02_remove_kills : forall w e w' r evs, Inv w -> step w (Remove e) = Some (w', r, evs) ->
  is_active w' e = false).
Print Assumptions C02_remove_kills.

Theorem C02_clear_kills : forall w visit w' r evs e, Inv w ->
  step w (Clear visit) = Some (w', r, evs) -> is_active w' e = false.
Proof. exact clear_kills. Qed.
Check (C02_clear_kills : forall w visit w' r evs e, Inv w ->
  step w (Clear visit) = Some (w', r, evs) -> is_active w' e = false).
Print Assumptions C02_clear_kills.

(** ... never again, even after its slot is reused ... *)
Theorem C02_dead : forall w o w' r evs issued e,
  Inv w -> Hist w issued -> Room w 1 -> In e issued -> is_active w e = false ->
  step w o = Some (w', r, evs) -> is_active w' e = false.
Proof. exact step_dead. Qed.
Check (C02_dead : forall w o w' r evs issued e,
  Inv w -> Hist w issued -> Room w 1 -> In e issued -> is_active w e = false ->
  step w o = Some (w', r, evs) -> is_active w' e = false).
Print Assumptions C02_dead.

(** ... and removing it is a no-op. *)
Theorem C02_remove_dead_noop : forall w e, is_active w e = false ->
  step w (Remove e) = Some (w, ONone, []).
Proof. exact remove_dead_noop. Qed.
Check (C02_remove_dead_noop : forall w e, is_active w e = false ->
  step w (Remove e) = Some (w, ONone, [])).
Print Assumptions C02_remove_dead_noop.

(** clone and the serde round trip keep slots and generations, hence resolution. *)
Theorem C02_clone : forall w w' evs e, clone_world w = Some (w', evs) ->
  is_active w' e = is_active w e.
Proof. intros w w' evs e E. rewrite (clone_world_same _ _ _ E). reflexivity. Qed.
Check (C02_clone : forall w w' evs e, clone_world w = Some (w', evs) ->
  is_active w' e = is_active w e).
Print Assumptions C02_clone.

(** Non-vacuity: slot 0 is reused; the stale identifier (0,0) is dead, (0,1) is live. *)
Example C02_example :
  match run_issued (empty_world 2 []) [Insert [(0, 5%N)]; Remove (0, 0%N); Insert [(1, 6%N)]] [] with
  | Some (w, issued) => issued = [(0, 1%N); (0, 0%N)] /\ is_active w (0, 0%N) = false
                        /\ is_active w (0, 1%N) = true
  | None => False
  end.
Proof. vm_compute. auto. Qed.


(** every place that resolves an identifier — World::contains, World::entry, World::remove and the query-time
    Entries::entry of systems — goes through the allocator's accessors, which compare the generation (read off the
    source): an identifier that is not live resolves to nothing, also after its slot has been handed on. *)
Theorem C02_dead_resolves_nowhere : forall w e, is_active w e = false -> resolve_src w e = None.
Proof. exact dead_resolves_nowhere. Qed.
Check (C02_dead_resolves_nowhere : forall w e, is_active w e = false -> resolve_src w e = None).
Print Assumptions C02_dead_resolves_nowhere.

Theorem C02_resolution_is_get_loc : forall w e, resolve_src w e = get_loc w e.
Proof. exact resolve_src_get_loc. Qed.

Theorem C02_generation_comparison_needed :
  let w := mkWorld 1 [mkArch [true] [((0, 1%N), [7%N])]] [] [mkSlot 1%N (Some ([true], 0))] [] 1 [] in
  is_active w (0, 0%N) = false /\ resolve_gen false w (0, 0%N) = Some ([true], 0) /\ resolve_gen true w (0, 0%N) = None.
Proof. exact stale_resolves_without_generation. Qed.
