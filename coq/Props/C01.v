(** C01 — World behaves as a map from live identifiers to component sets.
    Property theorems only; proofs are in Proofs/Refine.v (refinement),
    Proofs/StepInv.v (invariant), Proofs/CloneEq.v, Proofs/SerdeL.v.
    [absf w] is the world seen as a finite map identifier -> component vector;
    [spec_step] (Model/Spec.v) is what each operation does to a reference map. *)
From Coq Require Import Permutation.
From Brood Require Import Base World Multi Spec BaseFacts Inv StepInv Refine CloneEq SerdeL.

(** Every operation does to the map exactly what the reference map does — and
    nothing else: [feq] fixes the value at EVERY identifier, so operations on one
    entity never change any other (in particular the entity moved by a
    swap-remove keeps its identifier and values). *)
Theorem C01_refines : forall w o w' r evs, Inv w -> step w o = Some (w', r, evs) ->
  spec_step (w_n w) (absf w) o r (absf w').
Proof. exact step_refines. Qed.
Check (C01_refines : forall w o w' r evs, Inv w -> step w o = Some (w', r, evs) ->
  spec_step (w_n w) (absf w) o r (absf w')).
Print Assumptions C01_refines.

(** len() / is_empty() count the keys of the map; keys are unique. *)
Theorem C01_len : forall w, Inv w -> w_len w = length (abs w) /\ NoDup (map fst (abs w)).
Proof. intros w HI. split; [apply len_is_count | apply abs_keys_nodup]; exact HI. Qed.
Check (C01_len : forall w, Inv w -> w_len w = length (abs w) /\ NoDup (map fst (abs w))).
Print Assumptions C01_len.

(** The textual order of the components in entity!/entities! is irrelevant. *)
Theorem C01_order : forall n ent ent', NoDup (map fst ent) -> Permutation ent ent' ->
  cvec_of n ent = cvec_of n ent'.
Proof. exact cvec_of_perm. Qed.
Check (C01_order : forall n ent ent', NoDup (map fst ent) -> Permutation ent ent' ->
  cvec_of n ent = cvec_of n ent').
Print Assumptions C01_order.

(** The refinement holds along every history from a new world (the invariant is
    established by C13), so it holds for every reachable state. *)
Theorem C01_reachable : forall n res pre w o w' r evs,
  run (empty_world n res) pre = Some w -> step w o = Some (w', r, evs) ->
  spec_step n (absf w) o r (absf w').
Proof.
  intros n res pre w o w' r evs Hrun Hstep.
  pose proof (run_inv pre (empty_world n res) w (empty_world_inv n res) Hrun) as HI.
  pose proof (run_n pre (empty_world n res) w (empty_world_inv n res) Hrun) as Hn.
  cbn in Hn. rewrite <- Hn. eapply step_refines; eassumption.
Qed.
Check (C01_reachable : forall n res pre w o w' r evs,
  run (empty_world n res) pre = Some w -> step w o = Some (w', r, evs) ->
  spec_step n (absf w) o r (absf w')).
Print Assumptions C01_reachable.

(** clone, clone_from and the serde round trip reproduce the map. *)
Theorem C01_clone_from : forall dst src w' evs, Inv dst -> Inv src -> w_n dst = w_n src ->
  clone_from_world dst src = Some (w', evs) -> feq (absf w') (absf src) /\ w_len w' = w_len src.
Proof.
  intros dst src w' evs Hd Hs Hn E.
  destruct (clone_from_content _ _ _ _ Hd Hs Hn E) as (_ & _ & L & _ & _ & F). auto.
Qed.
Check (C01_clone_from : forall dst src w' evs, Inv dst -> Inv src -> w_n dst = w_n src ->
  clone_from_world dst src = Some (w', evs) -> feq (absf w') (absf src) /\ w_len w' = w_len src).
Print Assumptions C01_clone_from.

(** Extend stores one entity per written row and returns one identifier per row, also for a batch of
    component-less entities ([entities!((); n)], [entities!((), (), ())]): the number of rows travels with
    the batch, which is read off the source ([fact_batch_carries_row_count]).  Finding F5 REPAIRED. *)
Lemma fact_carries : fact_batch_carries_row_count = true.
Proof. reflexivity. Qed.

Theorem C01_extend_rows : forall comps rows, batch_rows comps rows = rows.
Proof. intros comps rows. unfold batch_rows, batch_rows_gen. rewrite fact_carries. reflexivity. Qed.
Check (C01_extend_rows : forall comps rows, batch_rows comps rows = rows).
Print Assumptions C01_extend_rows.

Example C01_componentless_batch :
  match step (empty_world 2 []) (Extend [] [[]; []; []]) with
  | Some (w', OIds ids, _) => length ids = 3 /\ w_len w' = 3
  | _ => False
  end.
Proof. vm_compute. auto. Qed.

(** ... as it was before the repair (finding F5, class K01): the length of a batch was read off its first
    column, so a batch without columns had length 0 whatever the number of rows written. *)
Theorem C01_F5_before_the_repair : batch_rows_gen false [] [[]; []; []] = [] /\
  forall c cs rows, batch_rows_gen false (c :: cs) rows = rows.
Proof. split; reflexivity. Qed.
Print Assumptions C01_F5_before_the_repair.

(** Non-vacuity of the refinement on a history with a swap-remove and shape changes. *)
Example C01_example :
  match run (empty_world 3 [])
            [Insert [(0, 5%N)]; Insert [(0, 6%N)]; Insert [(0, 8%N)]; Remove (0, 0%N);
             EntryAdd (2, 0%N) 1 9%N; WriteMut (1, 0%N) 0 4%N] with
  | Some w => absf w (2, 0%N) = Some [Some 8%N; Some 9%N; None] /\
              absf w (1, 0%N) = Some [Some 4%N; None; None] /\ absf w (0, 0%N) = None
  | None => False
  end.
Proof. vm_compute. auto. Qed.
