(** C08 — Tasks that may touch the same data never run concurrently.
    Property theorems only; proofs are in Proofs/SchedFacts.v.
    [par_in T x y]: x and y sit under the two sides of one rayon::join of the run
    [T], i.e. they are allowed to overlap in time.  The statement is about the
    fork/join structure, so all interleavings of a run are covered at once.
    [access t s c] is how task [t] can reach component [c] of an entity stored in
    archetype [s] (through its query iterator or its entry views), [res_access]
    how it can reach a resource. *)
From Coq Require Import Permutation.
From Brood Require Import Base Kinds Tables Sched SchedSpec SchedFacts TouchFacts.

Theorem C08_no_shared_write : forall n nres tasks archs stages T, NoDup archs ->
  stages_of n nres tasks = Some stages ->
  run_schedule n nres tasks archs = Some (stages, T) ->
  forall x y, par_in T x y ->
  exists tx ty, task_at tasks x = Some tx /\ task_at tasks y = Some ty /\
    (forall s c, In s archs -> claim_conflict (access n tx s c) (access n ty s c) = false) /\
    (forall i, claim_conflict (res_access nres tx i) (res_access nres ty i) = false).
Proof.
  intros n nres tasks archs stages T ND HS HR x y Hp.
  destruct (@run_schedule_facts n nres tasks archs ND stages HS) as (T' & E & _ & PA & _).
  rewrite HR in E. inversion E; subst T'. clear E.
  destruct (PA x y Hp) as (tx & ty & Hx & Hy & D). exists tx, ty. split; [exact Hx|]. split; [exact Hy|].
  exact (dyn_compat_no_shared_write D).
Qed.
Check (C08_no_shared_write : forall n nres tasks archs stages T, NoDup archs ->
  stages_of n nres tasks = Some stages ->
  run_schedule n nres tasks archs = Some (stages, T) ->
  forall x y, par_in T x y ->
  exists tx ty, task_at tasks x = Some tx /\ task_at tasks y = Some ty /\
    (forall s c, In s archs -> claim_conflict (access n tx s c) (access n ty s c) = false) /\
    (forall i, claim_conflict (res_access nres tx i) (res_access nres ty i) = false)).
Print Assumptions C08_no_shared_write.

(** The run-time test (claims merge on every commonly reached archetype, resource
    claims merge) is exactly the absence of a shared write. *)
Theorem C08_test_exact : forall n nres archs ta tb ca cb,
  task_claims n ta = Some ca -> task_claims n tb = Some cb ->
  (dyn_compat n nres archs ta tb <-> no_shared_write n nres archs ta tb).
Proof.
  intros n nres archs ta tb ca cb Ca Cb. split.
  - apply dyn_compat_no_shared_write.
  - eapply no_shared_write_dyn_compat; eauto.
Qed.
Check (C08_test_exact : forall n nres archs ta tb ca cb,
  task_claims n ta = Some ca -> task_claims n tb = Some cb ->
  (dyn_compat n nres archs ta tb <-> no_shared_write n nres archs ta tb)).
Print Assumptions C08_test_exact.

(** The static decision (Verifier/Merger tables) is sound on every world: tasks
    the stager puts in one stage are compatible whatever archetypes exist. *)
Theorem C08_static_sound : forall n nres tasks archs x y,
  sok n nres tasks x y -> compat n nres tasks archs x y.
Proof. intros. apply sok_dyn_compat. assumption. Qed.
Check (C08_static_sound : forall n nres tasks archs x y,
  sok n nres tasks x y -> compat n nres tasks archs x y).
Print Assumptions C08_static_sound.

(** The finite decision tables regenerated from the source are the conflict
    relation: a row says Append only if the kinds do not conflict and the claims merge. *)
Theorem C08_tables : forall k ck, verifier_row_sound k ck = true.
Proof. exact verifier_row. Qed.
Check (C08_tables : forall k ck, verifier_row_sound k ck = true).
Print Assumptions C08_tables.

(** Non-vacuity: on a world holding {A} and {B} only, T0:&mut A,&mut B / T1:&mut A, Has<..>
    style schedules do overlap; here the F4 witness world: T2 is NOT parallel with T1. *)
Example C08_example :
  match run_schedule 2 0 [mkTask [VComp KMut 0] FNone [] []; mkTask [VComp KMut 1] FNone [] []] [[true; true]] with
  | Some (_, T) => par_in T 0 1
  | None => False
  end.
Proof. vm_compute. tauto. Qed.


(** The same, in terms of what the tasks DECLARE ([may_access], Model/SchedSpec.v: from the views, the filter and
    the entry views alone — an entry view reaches every archetype that has the component): two tasks that may
    overlap in time share no component of any archetype present that one of them may write.  This is where
    the EntryFilter / view-filter / claim tables regenerated from the source are checked to cover the views. *)
Theorem C08_no_shared_write_declared : forall n nres tasks archs stages T, NoDup archs ->
  stages_of n nres tasks = Some stages ->
  run_schedule n nres tasks archs = Some (stages, T) ->
  forall x y, par_in T x y ->
  exists tx ty, task_at tasks x = Some tx /\ task_at tasks y = Some ty /\
    forall cx cy, task_claims n tx = Some cx -> task_claims n ty = Some cy ->
    forall s c, In s archs -> c < n -> claim_conflict (may_access tx s c) (may_access ty s c) = false.
Proof.
  intros n nres tasks archs stages T ND HS HR x y Hp.
  destruct (C08_no_shared_write n nres tasks archs stages T ND HS HR x y Hp) as (tx & ty & Hx & Hy & H1 & H2).
  exists tx, ty. split; [exact Hx|]. split; [exact Hy|]. intros cx cy Cx Cy s c Hs Hc.
  exact (no_shared_write_declared n nres archs tx ty cx cy Cx Cy (conj H1 H2) s c Hs Hc).
Qed.
Check (C08_no_shared_write_declared : forall n nres tasks archs stages T, NoDup archs ->
  stages_of n nres tasks = Some stages ->
  run_schedule n nres tasks archs = Some (stages, T) ->
  forall x y, par_in T x y ->
  exists tx ty, task_at tasks x = Some tx /\ task_at tasks y = Some ty /\
    forall cx cy, task_claims n tx = Some cx -> task_claims n ty = Some cy ->
    forall s c, In s archs -> c < n -> claim_conflict (may_access tx s c) (may_access ty s c) = false).
Print Assumptions C08_no_shared_write_declared.

Theorem C08_claims_cover_declared_access : forall n t s c cl, task_claims n t = Some cl -> c < n ->
  claim_le (may_access t s c) (access n t s c) = true.
Proof. exact may_access_covered. Qed.
Print Assumptions C08_claims_cover_declared_access.

(** non-vacuity: an entry view alone makes an archetype outside the query's reach accessible *)
Example C08_entry_view_reaches :
  may_access (mkTask [VComp KRef 0] FNone [VComp KRef 1] []) [false; true] 1 = CImm /\
  may_access (mkTask [VComp KRef 0] FNone [VComp KOptMut 1] []) [false; true] 1 = CMut.
Proof. vm_compute. split; reflexivity. Qed.
