(** C16 — Equality between worlds is sound.
    Property theorems only; proofs are in Proofs/CloneEq.v and Proofs/SerdeL.v.
    Assumption on user code: component PartialEq is equality of payloads
    (reflexive, symmetric), which the model builds in. *)
From Brood Require Import Base World Multi Spec BaseFacts Inv CloneEq SerdeL.

Theorem C16_refl : forall w, Inv w -> world_eqb w w = true.
Proof. exact world_eqb_refl. Qed.
Check (C16_refl : forall w, Inv w -> world_eqb w w = true).
Print Assumptions C16_refl.

Theorem C16_sym : forall a b, Inv a -> Inv b -> world_eqb a b = world_eqb b a.
Proof. exact world_eqb_sym. Qed.
Check (C16_sym : forall a b, Inv a -> Inv b -> world_eqb a b = world_eqb b a).
Print Assumptions C16_sym.

(** Equal worlds hold the same live identifiers with the same values and the
    same resources (and the same allocator state). *)
Theorem C16_sound : forall a b, Inv a -> Inv b -> world_eqb a b = true ->
  feq (absf a) (absf b) /\ w_res a = w_res b /\ w_slots a = w_slots b /\
  w_free a = w_free b /\ w_len a = w_len b.
Proof. exact world_eqb_sound. Qed.
Check (C16_sound : forall a b, Inv a -> Inv b -> world_eqb a b = true ->
  feq (absf a) (absf b) /\ w_res a = w_res b /\ w_slots a = w_slots b /\
  w_free a = w_free b /\ w_len a = w_len b).
Print Assumptions C16_sound.

(** Changing a component value, the live set, or a resource makes them unequal. *)
Theorem C16_differs : forall a b e, Inv a -> Inv b -> absf a e <> absf b e -> world_eqb a b = false.
Proof. exact world_eqb_differs. Qed.
Check (C16_differs : forall a b e, Inv a -> Inv b -> absf a e <> absf b e -> world_eqb a b = false).
Print Assumptions C16_differs.

Theorem C16_res_differs : forall a b, Inv a -> Inv b -> w_res a <> w_res b -> world_eqb a b = false.
Proof. exact world_eqb_res_differs. Qed.
Check (C16_res_differs : forall a b, Inv a -> Inv b -> w_res a <> w_res b -> world_eqb a b = false).
Print Assumptions C16_res_differs.

(** A clone compares equal to its source. *)
Theorem C16_clone : forall w w' evs, Inv w -> clone_world w = Some (w', evs) -> world_eqb w' w = true.
Proof. intros w w' evs HI E. rewrite (clone_world_same _ _ _ E). apply world_eqb_refl; exact HI. Qed.
Check (C16_clone : forall w w' evs, Inv w -> clone_world w = Some (w', evs) -> world_eqb w' w = true).
Print Assumptions C16_clone.

(** A serialize/deserialize round trip compares equal to the original. *)
Theorem C16_serde : forall w s, Inv w -> ser_world w = Some s ->
  exists w', de_world (w_n w) s = inr w' /\ world_eqb w w' = true.
Proof.
  intros w s HI E. eexists. split; [eapply de_ser_roundtrip; eassumption|].
  apply world_eqb_tid; exact HI.
Qed.
Check (C16_serde : forall w s, Inv w -> ser_world w = Some s ->
  exists w', de_world (w_n w) s = inr w' /\ world_eqb w w' = true).
Print Assumptions C16_serde.

(** Non-vacuity: two concrete worlds, equal content in different row order, compare unequal;
    a world with one entity is equal to itself and unequal to the empty world. *)
Example C16_example :
  let w0 := empty_world 2 [7%N] in
  match step w0 (Insert [(0, 5%N)]) with
  | Some (w1, _, _) => world_eqb w1 w1 = true /\ world_eqb w1 w0 = false /\ world_eqb w0 w1 = false
  | None => False
  end.
Proof. vm_compute. auto. Qed.
