(** C01/C02, refinement: the world, seen as a finite map from identifiers to
    component vectors, does exactly what the reference map of Model/Spec.v
    does.  Only [Inv] of the pre-state is assumed. *)
From Brood Require Import Base World Spec BaseFacts Inv.
Require Import Permutation.

(** * Generic list facts *)

Lemma rf_nth_error_ext (A : Type) (l l' : list A) :
  (forall k, nth_error l k = nth_error l' k) -> l = l'.
Proof.
  revert l'; induction l as [|x t IH]; intros [|y t'] H.
  - reflexivity.
  - specialize (H 0); discriminate.
  - specialize (H 0); discriminate.
  - f_equal.
    + specialize (H 0); cbn in H; congruence.
    + apply IH; intros k; apply (H (S k)).
Qed.

Lemma rf_nth_error_seq_map (A : Type) (f : nat -> A) n k :
  nth_error (map f (seq 0 n)) k = if Nat.ltb k n then Some (f k) else None.
Proof.
  destruct (Nat.ltb_spec k n) as [H|H].
  - rewrite nth_error_map.
    rewrite (nth_error_nth' _ 0) by (rewrite seq_length; lia).
    rewrite seq_nth by lia. reflexivity.
  - apply nth_error_None. rewrite map_length, seq_length; lia.
Qed.

Lemma rf_NoDup_app (A : Type) (l1 l2 : list A) :
  NoDup l1 -> NoDup l2 -> (forall x, In x l1 -> In x l2 -> False) -> NoDup (l1 ++ l2).
Proof.
  induction l1 as [|a t IH]; intros N1 N2 D; cbn; auto.
  inversion N1 as [|? ? Hnin N1']; subst.
  constructor.
  - intros HI. apply in_app_or in HI as [HI|HI]; [contradiction|].
    apply (D a); cbn; auto.
  - apply IH; auto. intros x H1 H2. apply (D x); cbn; auto.
Qed.

Lemma rf_nth_insert_at (A : Type) p (x : A) l j :
  p <= length l ->
  nth_error (insert_at p x l) j =
  if Nat.ltb j p then nth_error l j
  else if Nat.eqb j p then Some x else nth_error l (j - 1).
Proof.
  revert l j; induction p as [|p IH]; intros l j H.
  - cbn [insert_at]. destruct j as [|j]; cbn; [reflexivity|].
    rewrite Nat.sub_0_r; reflexivity.
  - destruct l as [|y t]; cbn [length] in H; [lia|].
    cbn [insert_at]. destruct j as [|j]; [reflexivity|].
    cbn [nth_error]. rewrite IH by lia.
    change (Nat.ltb (S j) (S p)) with (Nat.ltb j p).
    change (Nat.eqb (S j) (S p)) with (Nat.eqb j p).
    destruct (Nat.ltb_spec j p); [reflexivity|].
    destruct (Nat.eqb_spec j p); [reflexivity|].
    destruct j as [|j]; [lia|]. cbn. rewrite Nat.sub_0_r; reflexivity.
Qed.

Lemma rf_nth_remove_at (A : Type) p (l : list A) j :
  nth_error (remove_at p l) j = if Nat.ltb j p then nth_error l j else nth_error l (S j).
Proof.
  revert l j; induction p as [|p IH]; intros l j.
  - destruct l as [|y t]; cbn; [destruct j; reflexivity|reflexivity].
  - destruct l as [|y t]; cbn [remove_at].
    + destruct (Nat.ltb j (S p)); destruct j; reflexivity.
    + destruct j as [|j]; [reflexivity|].
      cbn [nth_error]. rewrite IH.
      change (Nat.ltb (S j) (S p)) with (Nat.ltb j p). reflexivity.
Qed.

Lemma rf_upd_same (A : Type) c (x : A) l : nth_error l c = Some x -> upd c (fun _ => x) l = l.
Proof.
  revert c; induction l as [|y t IH]; intros [|c] H; cbn in *; try discriminate.
  - congruence.
  - f_equal; auto.
Qed.

Lemma rf_In_upd (A : Type) (x : A) r f l :
  In x (upd r f l) <->
  exists j y, nth_error l j = Some y /\ x = if Nat.eqb j r then f y else y.
Proof.
  split.
  - intros H. apply In_nth_error in H as [j Hj]. rewrite nth_error_upd in Hj.
    destruct (nth_error l j) as [y|] eqn:E.
    + exists j, y. split; auto. destruct (Nat.eqb j r); cbn in Hj; congruence.
    + destruct (Nat.eqb j r); cbn in Hj; discriminate.
  - intros [j [y [Hj ->]]]. apply nth_error_In with (n := j).
    rewrite nth_error_upd, Hj. destruct (Nat.eqb j r); reflexivity.
Qed.

Lemma rf_In_swap_remove (A : Type) (x : A) r l :
  r < length l ->
  (In x (swap_remove r l) <-> exists j, j <> r /\ nth_error l j = Some x).
Proof.
  intros Hr. split.
  - intros H. apply In_nth_error in H as [j Hj].
    rewrite (nth_error_swap_remove j l Hr) in Hj.
    destruct (Nat.ltb_spec j (length l - 1)) as [Hlt|]; [|discriminate].
    destruct (Nat.eqb_spec j r) as [Heq|Hne].
    + subst j. exists (length l - 1). split; auto. lia.
    + exists j; auto.
  - intros [j [Hne Hj]].
    assert (Hjl : j < length l) by (apply nth_error_Some; congruence).
    destruct (Nat.eq_dec j (length l - 1)) as [->|Hnl].
    + apply nth_error_In with (n := r).
      rewrite (nth_error_swap_remove r l Hr).
      destruct (Nat.ltb_spec r (length l - 1)); [|lia].
      rewrite Nat.eqb_refl. auto.
    + apply nth_error_In with (n := j).
      rewrite (nth_error_swap_remove j l Hr).
      destruct (Nat.ltb_spec j (length l - 1)); [|lia].
      destruct (Nat.eqb_spec j r); [contradiction|auto].
Qed.

Lemma rf_map_fst_combine (A B : Type) (l : list A) (l' : list B) :
  length l = length l' -> map fst (combine l l') = l.
Proof.
  revert l'; induction l as [|x t IH]; intros [|y t'] H; cbn in *; try lia; auto.
  f_equal; apply IH; lia.
Qed.

Lemma rf_combine_map_r (A B C : Type) (g : B -> C) (l : list A) (l' : list B) :
  combine l (map g l') = map (fun p => (fst p, g (snd p))) (combine l l').
Proof.
  revert l'; induction l as [|x t IH]; intros [|y t']; cbn; auto.
  f_equal; apply IH.
Qed.

Lemma rf_map_add_seq a c : map (fun k => a + k) (seq 0 c) = seq a c.
Proof.
  revert a; induction c as [|c IH]; intros a; cbn [seq map]; [reflexivity|].
  f_equal; [lia|].
  rewrite <- seq_shift, map_map. rewrite <- (IH (S a)).
  apply map_ext. intros k. lia.
Qed.

(** * Identifiers *)

Lemma rf_eid_eqb_refl e : eid_eqb e e = true.
Proof. apply eid_eqb_eq; reflexivity. Qed.

Lemma rf_eid_eqb_neq a b : eid_eqb a b = false <-> a <> b.
Proof.
  split; intros H.
  - intros ->. rewrite rf_eid_eqb_refl in H; discriminate.
  - destruct (eid_eqb a b) eqn:E; auto. apply eid_eqb_eq in E; contradiction.
Qed.

Lemma rf_eid_dec (a b : eid) : {a = b} + {a <> b}.
Proof. decide equality; [apply N.eq_dec | apply Nat.eq_dec]. Qed.

(** * Shapes: popcount, rank, bit positions *)

Lemma rf_count_true_cons (b : bool) (s : shape) :
  count_true (b :: s) = (if b then 1 else 0) + count_true s.
Proof. unfold count_true. destruct b; reflexivity. Qed.

Lemma rf_get_bit_lt k s : get_bit k s = true -> k < length s.
Proof.
  unfold get_bit. intros H.
  destruct (Nat.ltb_spec k (length s)) as [|Hge]; auto.
  rewrite nth_overflow in H by lia. discriminate.
Qed.

Lemma rf_rank_S k s :
  k < length s -> rank (S k) s = rank k s + (if get_bit k s then 1 else 0).
Proof.
  revert k; induction s as [|b t IH]; intros k H; cbn [length] in H; [lia|].
  destruct k as [|k].
  - unfold rank, get_bit. cbn [firstn nth]. rewrite rf_count_true_cons.
    unfold count_true; cbn. lia.
  - unfold rank in *. change (get_bit (S k) (b :: t)) with (get_bit k t).
    change (firstn (S (S k)) (b :: t)) with (b :: firstn (S k) t).
    change (firstn (S k) (b :: t)) with (b :: firstn k t).
    rewrite !rf_count_true_cons. rewrite IH by lia. lia.
Qed.

Lemma rf_rank_all k s : length s <= k -> rank k s = count_true s.
Proof. intros H; unfold rank; rewrite firstn_all2; auto. Qed.

Lemma rf_rank_mono_S k s : rank k s <= rank (S k) s.
Proof.
  destruct (Nat.lt_ge_cases k (length s)).
  - rewrite rf_rank_S by auto; lia.
  - rewrite !rf_rank_all by lia; lia.
Qed.

Lemma rf_rank_mono j k s : j <= k -> rank j s <= rank k s.
Proof.
  induction 1 as [|k Hle IH]; [lia|].
  pose proof (rf_rank_mono_S k s). lia.
Qed.

Lemma rf_rank_lt j k s : j < k -> get_bit j s = true -> rank j s < rank k s.
Proof.
  intros Hlt Hb. pose proof (rf_get_bit_lt _ _ Hb) as Hl.
  pose proof (rf_rank_S j s Hl) as HS. rewrite Hb in HS.
  pose proof (rf_rank_mono (S j) k s Hlt). lia.
Qed.

Lemma rf_rank_le_count k s : rank k s <= count_true s.
Proof.
  destruct (Nat.lt_ge_cases k (length s)).
  - rewrite <- (rf_rank_all (length s) s) by lia. apply rf_rank_mono; lia.
  - rewrite rf_rank_all by lia; lia.
Qed.

Lemma rf_rank_lt_count k s : get_bit k s = true -> rank k s < count_true s.
Proof.
  intros Hb. pose proof (rf_get_bit_lt _ _ Hb) as Hl.
  rewrite <- (rf_rank_all (length s) s) by lia. apply rf_rank_lt; auto.
Qed.

Lemma rf_rank_inj j k s :
  get_bit j s = true -> get_bit k s = true -> rank j s = rank k s -> j = k.
Proof.
  intros Hj Hk Heq.
  destruct (Nat.lt_trichotomy j k) as [H|[H|H]]; auto.
  - pose proof (rf_rank_lt j k s H Hj). lia.
  - pose proof (rf_rank_lt k j s H Hk). lia.
Qed.

Lemma rf_rank_set_bit_le c b s k : k <= c -> rank k (set_bit c b s) = rank k s.
Proof.
  destruct (Nat.lt_ge_cases c (length s)) as [Hc|Hc].
  2:{ intros _. unfold set_bit. rewrite upd_oob by lia. reflexivity. }
  induction k as [|k IH]; intros Hk; [reflexivity|].
  rewrite !rf_rank_S by (rewrite ?set_bit_length; lia).
  rewrite get_bit_set_bit by lia.
  destruct (Nat.eqb_spec k c); [lia|]. rewrite IH by lia. reflexivity.
Qed.

Lemma rf_rank_set_bit_gt c b s k :
  c < length s -> c < k ->
  rank k (set_bit c b s) + (if get_bit c s then 1 else 0) =
  rank k s + (if b then 1 else 0).
Proof.
  intros Hc. induction k as [|k IH]; intros Hk; [lia|].
  destruct (Nat.eq_dec k c) as [->|Hne].
  - rewrite !rf_rank_S by (rewrite ?set_bit_length; lia).
    rewrite get_bit_set_bit by lia. rewrite Nat.eqb_refl.
    rewrite rf_rank_set_bit_le by lia. lia.
  - destruct (Nat.lt_ge_cases k (length s)) as [Hkl|Hkl].
    + rewrite !rf_rank_S by (rewrite ?set_bit_length; lia).
      rewrite get_bit_set_bit by lia.
      destruct (Nat.eqb_spec k c); [lia|].
      assert (c < k) by lia. specialize (IH H). lia.
    + assert (c < k) by lia. specialize (IH H).
      rewrite (rf_rank_all (S k)) by (rewrite set_bit_length; lia).
      rewrite (rf_rank_all (S k) s) by lia.
      rewrite (rf_rank_all k) in IH by (rewrite set_bit_length; lia).
      rewrite (rf_rank_all k s) in IH by lia. exact IH.
Qed.

Lemma rf_filter_seq_rank s k :
  k <= length s -> length (filter (fun j => get_bit j s) (seq 0 k)) = rank k s.
Proof.
  induction k as [|k IH]; intros Hk; [reflexivity|].
  rewrite seq_S, filter_app, app_length, IH by lia.
  rewrite rf_rank_S by lia. cbn [filter Nat.add].
  destruct (get_bit k s); reflexivity.
Qed.

Lemma rf_bits_on_rank s k :
  get_bit k s = true -> nth_error (bits_on s) (rank k s) = Some k.
Proof.
  intros Hb. pose proof (rf_get_bit_lt _ _ Hb) as Hl. unfold bits_on.
  replace (length s) with (k + S (length s - S k)) by lia.
  rewrite seq_app, filter_app.
  rewrite <- (rf_filter_seq_rank s k) by lia.
  rewrite nth_error_app2 by lia. rewrite Nat.sub_diag.
  cbn [seq filter Nat.add]. rewrite Hb. reflexivity.
Qed.

(** * Component vectors of rows *)

Lemma rf_nth_row_abs sh vals k :
  nth_error (row_abs sh vals) k =
  if Nat.ltb k (length sh)
  then Some (if get_bit k sh then nth_error vals (rank k sh) else None)
  else None.
Proof. unfold row_abs. apply rf_nth_error_seq_map. Qed.

Lemma rf_row_abs_length sh vals : length (row_abs sh vals) = length sh.
Proof. unfold row_abs. rewrite map_length, seq_length. reflexivity. Qed.

(** Overwrite of a component that is present. *)
Lemma rf_row_abs_overwrite sh vals c v :
  get_bit c sh = true -> length vals = count_true sh ->
  row_abs sh (upd (rank c sh) (fun _ => v) vals) =
  upd c (fun _ => Some v) (row_abs sh vals).
Proof.
  intros Hb Hlen. apply rf_nth_error_ext. intros k.
  rewrite nth_error_upd, !rf_nth_row_abs.
  pose proof (rf_get_bit_lt _ _ Hb) as Hc.
  pose proof (rf_rank_lt_count _ _ Hb) as Hr.
  destruct (Nat.ltb_spec k (length sh)) as [Hk|Hk].
  - destruct (Nat.eqb_spec k c) as [->|Hne].
    + rewrite Hb. rewrite nth_error_upd_same.
      destruct (nth_error vals (rank c sh)) eqn:E; [reflexivity|].
      apply nth_error_None in E. lia.
    + destruct (get_bit k sh) eqn:Hbk; [|reflexivity].
      rewrite nth_error_upd_other; [reflexivity|].
      intros Heq. apply Hne. eapply rf_rank_inj; eauto.
  - destruct (Nat.eqb_spec k c); [lia|reflexivity].
Qed.

(** A component is added: its value is inserted at its rank. *)
Lemma rf_row_abs_insert sh vals c v :
  c < length sh -> get_bit c sh = false -> length vals = count_true sh ->
  row_abs (set_bit c true sh) (insert_at (rank c (set_bit c true sh)) v vals) =
  upd c (fun _ => Some v) (row_abs sh vals).
Proof.
  intros Hc Hb Hlen. apply rf_nth_error_ext. intros k.
  rewrite nth_error_upd, !rf_nth_row_abs, set_bit_length.
  rewrite (rf_rank_set_bit_le c true sh c) by lia.
  pose proof (rf_rank_le_count c sh) as Hrc.
  destruct (Nat.ltb_spec k (length sh)) as [Hk|Hk].
  2:{ destruct (Nat.eqb_spec k c); [lia|reflexivity]. }
  rewrite get_bit_set_bit by lia.
  destruct (Nat.eqb_spec k c) as [->|Hne].
  - cbn [option_map]. rewrite (rf_rank_set_bit_le c true sh c) by lia.
    rewrite rf_nth_insert_at by lia.
    rewrite Nat.ltb_irrefl, Nat.eqb_refl. reflexivity.
  - destruct (get_bit k sh) eqn:Hbk; [|reflexivity].
    rewrite rf_nth_insert_at by lia.
    destruct (Nat.lt_ge_cases k c) as [Hlt|Hge].
    + rewrite rf_rank_set_bit_le by lia.
      pose proof (rf_rank_lt k c sh Hlt Hbk) as Hr.
      destruct (Nat.ltb_spec (rank k sh) (rank c sh)); [reflexivity|lia].
    + assert (Hgt : c < k) by lia.
      pose proof (rf_rank_set_bit_gt c true sh k Hc Hgt) as Hr. rewrite Hb in Hr.
      pose proof (rf_rank_mono c k sh Hge) as Hm.
      destruct (Nat.ltb_spec (rank k (set_bit c true sh)) (rank c sh)); [lia|].
      destruct (Nat.eqb_spec (rank k (set_bit c true sh)) (rank c sh)); [lia|].
      f_equal. f_equal. lia.
Qed.

(** A component is removed: its value is taken out at its rank. *)
Lemma rf_row_abs_remove sh vals c :
  get_bit c sh = true ->
  row_abs (set_bit c false sh) (remove_at (rank c sh) vals) =
  upd c (fun _ => None) (row_abs sh vals).
Proof.
  intros Hb. pose proof (rf_get_bit_lt _ _ Hb) as Hc.
  apply rf_nth_error_ext. intros k.
  rewrite nth_error_upd, !rf_nth_row_abs, set_bit_length.
  destruct (Nat.ltb_spec k (length sh)) as [Hk|Hk].
  2:{ destruct (Nat.eqb_spec k c); [lia|reflexivity]. }
  rewrite get_bit_set_bit by lia.
  destruct (Nat.eqb_spec k c) as [->|Hne]; [reflexivity|].
  destruct (get_bit k sh) eqn:Hbk; [|reflexivity].
  rewrite rf_nth_remove_at.
  destruct (Nat.lt_ge_cases k c) as [Hlt|Hge].
  - rewrite rf_rank_set_bit_le by lia.
    pose proof (rf_rank_lt k c sh Hlt Hbk) as Hr.
    destruct (Nat.ltb_spec (rank k sh) (rank c sh)); [reflexivity|lia].
  - assert (Hgt : c < k) by lia.
    pose proof (rf_rank_set_bit_gt c false sh k Hc Hgt) as Hr. rewrite Hb in Hr.
    pose proof (rf_rank_lt c k sh Hgt Hb) as Hm.
    destruct (Nat.ltb_spec (rank k (set_bit c false sh)) (rank c sh)); [lia|].
    f_equal. f_equal. lia.
Qed.

(** Shapes built from a component list. *)
Lemma rf_shape_of_length n cs : length (shape_of n cs) = n.
Proof. unfold shape_of. rewrite map_length, seq_length. reflexivity. Qed.

Lemma rf_get_bit_shape_of n cs k :
  get_bit k (shape_of n cs) = if Nat.ltb k n then has_comp k cs else false.
Proof.
  unfold get_bit.
  pose proof (rf_nth_error_seq_map _ (fun k => has_comp k cs) n k) as H.
  fold (shape_of n cs) in H.
  destruct (Nat.ltb_spec k n).
  - eapply nth_error_nth; eauto.
  - apply nth_overflow. rewrite rf_shape_of_length; lia.
Qed.

(** Canonical form: values are stored in registry order whatever the textual order. *)
Lemma rf_row_abs_canon n ent :
  row_abs (shape_of n (map fst ent)) (canon_vals (shape_of n (map fst ent)) ent) =
  cvec_of n ent.
Proof.
  apply rf_nth_error_ext. intros k.
  rewrite rf_nth_row_abs, rf_shape_of_length. unfold cvec_of.
  rewrite rf_nth_error_seq_map.
  destruct (Nat.ltb_spec k n) as [Hk|Hk]; [|reflexivity].
  f_equal. rewrite rf_get_bit_shape_of.
  destruct (Nat.ltb_spec k n) as [_|]; [|lia].
  destruct (has_comp k (map fst ent)) eqn:Hh; [|reflexivity].
  unfold canon_vals. rewrite nth_error_map.
  rewrite rf_bits_on_rank; [reflexivity|].
  rewrite rf_get_bit_shape_of.
  destruct (Nat.ltb_spec k n); [auto|lia].
Qed.

(** * Rows of the archetype table as a relation *)

(** [rf_R archs sh e vals]: some archetype of shape [sh] stores a row [(e, vals)]. *)
Definition rf_R (archs : list arch) (sh : shape) (e : eid) (vals : list val) : Prop :=
  exists a, In a archs /\ a_shape a = sh /\ In (e, vals) (a_rows a).

Lemma rf_in_abs w e cv :
  In (e, cv) (abs w) <->
  exists sh vals, rf_R (w_archs w) sh e vals /\ cv = row_abs sh vals.
Proof.
  unfold abs. rewrite in_flat_map. split.
  - intros [a [Ha Hin]]. apply in_map_iff in Hin as [[e' vals] [Heq Hin]].
    cbn [fst snd] in Heq. inversion Heq; subst.
    exists (a_shape a), vals. split; [exists a; auto|reflexivity].
  - intros [sh [vals [[a [Ha [Hs Hin]]] Hcv]]]. exists a. split; auto.
    apply in_map_iff. exists (e, vals). subst sh cv. split; auto.
Qed.

Lemma rf_find_R archs sh a r e vals :
  find_arch sh archs = Some a -> nth_error (a_rows a) r = Some (e, vals) ->
  rf_R archs sh e vals.
Proof.
  intros Hf Hr. exists a. split; [eapply find_arch_In; eauto|].
  split; [eapply find_arch_shape; eauto|]. eapply nth_error_In; eauto.
Qed.

Lemma rf_absf_some_in w e cv : absf w e = Some cv -> In (e, cv) (abs w).
Proof.
  unfold absf. destruct (find (fun p => eid_eqb (fst p) e) (abs w)) as [p|] eqn:E; [|discriminate].
  intros H; inversion H; subst. apply find_some in E as [E1 E2].
  apply eid_eqb_eq in E2. destruct p as [e' cv']; cbn [fst snd] in *. subst; auto.
Qed.

Lemma rf_absf_none w e : absf w e = None <-> forall cv, ~ In (e, cv) (abs w).
Proof.
  unfold absf. destruct (find (fun p => eid_eqb (fst p) e) (abs w)) as [p|] eqn:E.
  - split; [discriminate|]. intros H. exfalso.
    apply find_some in E as [E1 E2]. apply eid_eqb_eq in E2.
    destruct p as [e' cv']; cbn [fst snd] in *. subst. eapply H; eauto.
  - split; auto. intros _ cv Hin.
    pose proof (find_none _ _ E _ Hin) as Hn. cbn [fst] in Hn.
    rewrite rf_eid_eqb_refl in Hn. discriminate.
Qed.

(** * Consequences of the invariant *)

Lemma rf_get_loc_slot w e sh r :
  get_loc w e = Some (sh, r) ->
  nth_error (w_slots w) (fst e) = Some (mkSlot (snd e) (Some (sh, r))).
Proof.
  unfold get_loc. destruct (nth_error (w_slots w) (fst e)) as [s|]; [|discriminate].
  destruct (N.eqb_spec (s_gen s) (snd e)) as [Hg|]; [|discriminate].
  intros H. destruct s as [g l]; cbn [s_gen s_loc] in *. subst. reflexivity.
Qed.

Lemma rf_R_slot w sh e vals :
  Inv w -> rf_R (w_archs w) sh e vals ->
  exists a r, find_arch sh (w_archs w) = Some a /\
              nth_error (a_rows a) r = Some (e, vals) /\
              nth_error (w_slots w) (fst e) = Some (mkSlot (snd e) (Some (sh, r))).
Proof.
  intros HI [a [Ha [Hs Hin]]]. apply In_nth_error in Hin as [r Hr].
  exists a, r.
  assert (Hf : find_arch sh (w_archs w) = Some a).
  { subst sh. apply In_find_arch; auto. apply (inv_nodup HI). }
  split; auto. split; auto. destruct e as [i g]. cbn [fst snd].
  eapply inv_bwd; eauto.
Qed.

Lemma rf_R_fun w sh sh' e vals vals' :
  Inv w -> rf_R (w_archs w) sh e vals -> rf_R (w_archs w) sh' e vals' ->
  sh = sh' /\ vals = vals'.
Proof.
  intros HI H1 H2.
  destruct (rf_R_slot _ _ _ _ HI H1) as [a [r [Hf [Hr Hs]]]].
  destruct (rf_R_slot _ _ _ _ HI H2) as [a' [r' [Hf' [Hr' Hs']]]].
  rewrite Hs in Hs'. inversion Hs'; subst sh' r'.
  rewrite Hf in Hf'. inversion Hf'; subst a'.
  rewrite Hr in Hr'. inversion Hr'; auto.
Qed.

Lemma rf_row_unique w sh a r r' e v v' :
  Inv w -> find_arch sh (w_archs w) = Some a ->
  nth_error (a_rows a) r = Some (e, v) -> nth_error (a_rows a) r' = Some (e, v') -> r = r'.
Proof.
  intros HI Hf H1 H2. destruct e as [i g].
  pose proof (inv_bwd HI _ _ Hf H1) as S1.
  pose proof (inv_bwd HI _ _ Hf H2) as S2.
  rewrite S1 in S2. inversion S2; auto.
Qed.

Lemma rf_arch_unique archs sh a a0 :
  NoDup (map a_shape archs) -> find_arch sh archs = Some a0 ->
  In a archs -> a_shape a = sh -> a = a0.
Proof.
  intros ND Hf Ha Hs. subst sh. rewrite In_find_arch in Hf; auto. congruence.
Qed.

Lemma rf_in_abs_fun w e cv cv' :
  Inv w -> In (e, cv) (abs w) -> In (e, cv') (abs w) -> cv = cv'.
Proof.
  intros HI H1 H2.
  apply rf_in_abs in H1 as [sh [vals [R1 ->]]].
  apply rf_in_abs in H2 as [sh' [vals' [R2 ->]]].
  destruct (rf_R_fun _ _ _ _ _ _ HI R1 R2) as [-> ->]. reflexivity.
Qed.

Lemma rf_absf_in w e cv : Inv w -> (absf w e = Some cv <-> In (e, cv) (abs w)).
Proof.
  intros HI. split; [apply rf_absf_some_in|].
  intros Hin. destruct (absf w e) as [cv'|] eqn:E.
  - apply rf_absf_some_in in E. f_equal. eapply rf_in_abs_fun; eauto.
  - rewrite rf_absf_none in E. exfalso; eapply E; eauto.
Qed.

Lemma rf_absf_R w e sh vals :
  Inv w -> rf_R (w_archs w) sh e vals -> absf w e = Some (row_abs sh vals).
Proof.
  intros HI HR. apply rf_absf_in; auto. apply rf_in_abs. eauto.
Qed.

(** The characterisation of [absf] used everywhere below. *)
Lemma absf_spec w e cv :
  Inv w ->
  (absf w e = Some cv <->
   exists a r vals, In a (w_archs w) /\ nth_error (a_rows a) r = Some (e, vals) /\
                    cv = row_abs (a_shape a) vals).
Proof.
  intros HI. rewrite rf_absf_in by auto. rewrite rf_in_abs. split.
  - intros [sh [vals [[a [Ha [Hs Hin]]] Hcv]]]. apply In_nth_error in Hin as [r Hr].
    exists a, r, vals. subst sh. auto.
  - intros [a [r [vals [Ha [Hr Hcv]]]]]. exists (a_shape a), vals. split; auto.
    exists a. split; auto. split; auto. eapply nth_error_In; eauto.
Qed.

Lemma absf_spec_none w e :
  absf w e = None <->
  forall a r vals, In a (w_archs w) -> nth_error (a_rows a) r <> Some (e, vals).
Proof.
  rewrite rf_absf_none. split.
  - intros H a r vals Ha Hr. apply (H (row_abs (a_shape a) vals)).
    apply rf_in_abs. exists (a_shape a), vals. split; auto.
    exists a. split; auto. split; auto. eapply nth_error_In; eauto.
  - intros H cv Hin. apply rf_in_abs in Hin as [sh [vals [[a [Ha [Hs Hin]]] Hcv]]].
    apply In_nth_error in Hin as [r Hr]. eapply H; eauto.
Qed.

Theorem active_get_loc : forall w e, is_active w e = true <-> get_loc w e <> None.
Proof.
  intros w e. unfold is_active, get_loc.
  destruct (nth_error (w_slots w) (fst e)) as [[g l]|]; cbn [s_gen s_loc].
  - destruct l as [p|]; destruct (N.eqb g (snd e)); split; intros H; congruence.
  - split; intros H; congruence.
Qed.

Theorem absf_active : forall w e, Inv w -> (absf w e <> None <-> is_active w e = true).
Proof.
  intros w e HI. split.
  - intros H. destruct (absf w e) as [cv|] eqn:E; [|congruence].
    apply rf_absf_some_in in E. apply rf_in_abs in E as [sh [vals [HR _]]].
    destruct (rf_R_slot _ _ _ _ HI HR) as [a [r [_ [_ Hs]]]].
    unfold is_active. rewrite Hs. cbn [s_loc s_gen]. apply N.eqb_refl.
  - intros H. unfold is_active in H.
    destruct (nth_error (w_slots w) (fst e)) as [[g l]|] eqn:Es; [|discriminate].
    cbn [s_loc s_gen] in H. destruct l as [[sh r]|]; [|discriminate].
    apply N.eqb_eq in H.
    destruct (inv_fwd HI _ Es) as [a [vals [Hf Hr]]].
    assert (He : (fst e, g) = e) by (destruct e; cbn [fst snd] in *; subst; reflexivity).
    rewrite He in Hr.
    rewrite (rf_absf_R _ _ _ _ HI (rf_find_R _ _ _ _ _ _ Hf Hr)). discriminate.
Qed.

Lemma rf_inactive_absf w e : Inv w -> is_active w e = false -> absf w e = None.
Proof.
  intros HI H. destruct (absf w e) eqn:E; auto.
  assert (Hn : absf w e <> None) by congruence.
  apply absf_active in Hn; auto. congruence.
Qed.

(** * Keys are unique; [len] counts them *)

Lemma rf_keys_abs w :
  map fst (abs w) = flat_map (fun a => map fst (a_rows a)) (w_archs w).
Proof.
  unfold abs. induction (w_archs w) as [|a t IH]; cbn [flat_map map]; auto.
  rewrite map_app, IH, map_map. reflexivity.
Qed.

Lemma rf_keys_nodup_gen archs :
  (forall a, In a archs -> NoDup (map fst (a_rows a))) ->
  NoDup (map a_shape archs) ->
  (forall a b e, In a archs -> In b archs ->
                 In e (map fst (a_rows a)) -> In e (map fst (a_rows b)) ->
                 a_shape a = a_shape b) ->
  NoDup (flat_map (fun a => map fst (a_rows a)) archs).
Proof.
  induction archs as [|a t IH]; intros H1 H2 H3; cbn [flat_map]; [constructor|].
  cbn [map] in H2. inversion H2 as [|? ? Hnin ND]; subst.
  apply rf_NoDup_app.
  - apply H1; cbn; auto.
  - apply IH; auto.
    + intros b Hb; apply H1; cbn; auto.
    + intros b c e Hb Hc; apply H3; cbn; auto.
  - intros e He1 He2. apply in_flat_map in He2 as [b [Hb He2]].
    apply Hnin. rewrite (H3 a b e); cbn; auto. apply in_map; auto.
Qed.

Theorem abs_keys_nodup : forall w, Inv w -> NoDup (map fst (abs w)).
Proof.
  intros w HI. rewrite rf_keys_abs. apply rf_keys_nodup_gen.
  - intros a Ha. apply NoDup_nth_error. intros i j Hi Heq.
    rewrite map_length in Hi. rewrite !nth_error_map in Heq.
    destruct (@nth_error (eid * list val) (a_rows a) i) as [[e v]|] eqn:Ei.
    2:{ apply nth_error_None in Ei. exfalso. apply (Nat.lt_irrefl i).
        eapply Nat.lt_le_trans; eauto. }
    destruct (@nth_error (eid * list val) (a_rows a) j) as [[e' v']|] eqn:Ej;
      cbn [option_map fst] in Heq; [|discriminate].
    inversion Heq; subst e'.
    eapply rf_row_unique; eauto.
    apply In_find_arch; auto. apply (inv_nodup HI).
  - apply (inv_nodup HI).
  - intros a b e Ha Hb Hea Heb.
    apply in_map_iff in Hea as [[e1 v1] [E1 Hin1]].
    apply in_map_iff in Heb as [[e2 v2] [E2 Hin2]].
    cbn [fst] in *. subst e1 e2.
    assert (R1 : rf_R (w_archs w) (a_shape a) e v1) by (exists a; auto).
    assert (R2 : rf_R (w_archs w) (a_shape b) e v2) by (exists b; auto).
    destruct (rf_R_fun _ _ _ _ _ _ HI R1 R2); auto.
Qed.

Lemma rf_abs_length w : length (abs w) = total_rows (w_archs w).
Proof.
  unfold abs. induction (w_archs w) as [|a t IH]; [reflexivity|].
  cbn [flat_map]. rewrite app_length, map_length, IH. reflexivity.
Qed.

Theorem len_is_count : forall w, Inv w -> w_len w = length (abs w).
Proof. intros w HI. rewrite rf_abs_length. apply (inv_len HI). Qed.

(** * The textual order of components is irrelevant *)

Lemma rf_has_comp_In k cs : has_comp k cs = true <-> In k cs.
Proof.
  unfold has_comp. rewrite existsb_exists. split.
  - intros [x [Hx He]]. apply Nat.eqb_eq in He. subst; auto.
  - intros H. exists k. split; auto. apply Nat.eqb_refl.
Qed.

Lemma rf_has_comp_perm k cs cs' : Permutation cs cs' -> has_comp k cs = has_comp k cs'.
Proof.
  intros P. destruct (has_comp k cs) eqn:E1, (has_comp k cs') eqn:E2; auto.
  - apply rf_has_comp_In in E1. apply (Permutation_in _ P) in E1.
    apply rf_has_comp_In in E1. congruence.
  - apply rf_has_comp_In in E2. apply (Permutation_in _ (Permutation_sym P)) in E2.
    apply rf_has_comp_In in E2. congruence.
Qed.

Lemma rf_lookup_in ent k v : NoDup (map fst ent) -> In (k, v) ent -> lookup k ent = v.
Proof.
  induction ent as [|[k' v'] t IH]; intros ND Hin; [destruct Hin|].
  cbn [map fst] in ND. inversion ND as [|? ? Hnin ND']; subst.
  cbn [lookup]. destruct Hin as [Heq|Hin].
  - inversion Heq; subst. rewrite Nat.eqb_refl. reflexivity.
  - destruct (Nat.eqb_spec k k') as [->|Hne].
    + exfalso. apply Hnin. apply in_map_iff. exists (k', v). auto.
    + apply IH; auto.
Qed.

Theorem cvec_of_perm : forall n ent ent',
  NoDup (map fst ent) -> Permutation ent ent' -> cvec_of n ent = cvec_of n ent'.
Proof.
  intros n ent ent' ND P. unfold cvec_of. apply map_ext. intros k.
  assert (Pk : Permutation (map fst ent) (map fst ent')) by (apply Permutation_map; auto).
  rewrite <- (rf_has_comp_perm k _ _ Pk).
  destruct (has_comp k (map fst ent)) eqn:Hh; [|reflexivity].
  apply rf_has_comp_In in Hh. apply in_map_iff in Hh as [[k' v] [Hk Hin]].
  cbn [fst] in Hk. subst k'.
  rewrite (rf_lookup_in ent k v ND Hin).
  rewrite (rf_lookup_in ent' k v); auto.
  - eapply Permutation_NoDup; eauto.
  - eapply Permutation_in; eauto.
Qed.

(** * Proving [feq (absf w') m'] without the invariant of the post-state *)

Lemma rf_feq_intro w' (m' : fmap) :
  (forall e cv, In (e, cv) (abs w') -> m' e = Some cv) ->
  (forall e, m' e <> None -> exists cv, In (e, cv) (abs w')) ->
  feq (absf w') m'.
Proof.
  intros HA HB e. destruct (absf w' e) as [cv|] eqn:E.
  - apply rf_absf_some_in in E. symmetry; auto.
  - destruct (m' e) as [cv|] eqn:E2; auto.
    destruct (HB e) as [cv' Hin]; [congruence|].
    rewrite rf_absf_none in E. exfalso; eapply E; eauto.
Qed.

Lemma rf_fupd_eq (m : fmap) e v : fupd m e v e = v.
Proof. unfold fupd. rewrite rf_eid_eqb_refl. reflexivity. Qed.

Lemma rf_fupd_neq (m : fmap) e v e' : e' <> e -> fupd m e v e' = m e'.
Proof. intros H. unfold fupd. apply rf_eid_eqb_neq in H. rewrite H. reflexivity. Qed.

Lemma rf_absf_R_inv w e cv :
  absf w e = Some cv -> exists s v, rf_R (w_archs w) s e v /\ cv = row_abs s v.
Proof. intros H. apply rf_absf_some_in in H. apply rf_in_abs in H. exact H. Qed.

(** Same rows, same map. *)
Lemma rf_feq_same w w' :
  Inv w ->
  (forall s e v, rf_R (w_archs w') s e v <-> rf_R (w_archs w) s e v) ->
  feq (absf w') (absf w).
Proof.
  intros HI HR. apply rf_feq_intro.
  - intros e cv Hin. apply rf_in_abs in Hin as [s [v [HRr ->]]].
    apply HR in HRr. apply rf_absf_R; auto.
  - intros e Hne. destruct (absf w e) as [cv|] eqn:E; [|congruence].
    apply rf_absf_R_inv in E as [s [v [HRr ->]]].
    exists (row_abs s v). apply rf_in_abs. exists s, v; split; auto. apply HR; auto.
Qed.

(** The row of [e] is replaced (or created). *)
Lemma rf_feq_set w w' e sh2 vals2 :
  Inv w ->
  (forall s e' v', rf_R (w_archs w') s e' v' <->
     (rf_R (w_archs w) s e' v' /\ e' <> e) \/ (s = sh2 /\ e' = e /\ v' = vals2)) ->
  feq (absf w') (fupd (absf w) e (Some (row_abs sh2 vals2))).
Proof.
  intros HI HR. apply rf_feq_intro.
  - intros e' cv Hin. apply rf_in_abs in Hin as [s [v [HRr ->]]].
    apply HR in HRr as [[HRr Hne]|[-> [-> ->]]].
    + rewrite rf_fupd_neq by auto. apply rf_absf_R; auto.
    + apply rf_fupd_eq.
  - intros e' Hne. destruct (rf_eid_dec e' e) as [->|Hd].
    + exists (row_abs sh2 vals2). apply rf_in_abs. exists sh2, vals2. split; auto.
      apply HR. right; auto.
    + rewrite rf_fupd_neq in Hne by auto.
      destruct (absf w e') as [cv|] eqn:E; [|congruence].
      apply rf_absf_R_inv in E as [s [v [HRr ->]]].
      exists (row_abs s v). apply rf_in_abs. exists s, v; split; auto.
      apply HR. left; auto.
Qed.

(** A row with a key that is not in the map is added. *)
Lemma rf_feq_add w w' id sh2 vals2 :
  Inv w -> absf w id = None ->
  (forall s e' v', rf_R (w_archs w') s e' v' <->
     rf_R (w_archs w) s e' v' \/ (s = sh2 /\ e' = id /\ v' = vals2)) ->
  feq (absf w') (fupd (absf w) id (Some (row_abs sh2 vals2))).
Proof.
  intros HI Hn HR. apply rf_feq_set; auto.
  intros s e' v'. rewrite HR. split; intros [H|H]; auto.
  - left; split; auto. intros ->.
    rewrite (rf_absf_R _ _ _ _ HI H) in Hn. discriminate.
  - left; tauto.
Qed.

(** The row of [e] is deleted. *)
Lemma rf_feq_del w w' e :
  Inv w ->
  (forall s e' v', rf_R (w_archs w') s e' v' <-> rf_R (w_archs w) s e' v' /\ e' <> e) ->
  feq (absf w') (fupd (absf w) e None).
Proof.
  intros HI HR. apply rf_feq_intro.
  - intros e' cv Hin. apply rf_in_abs in Hin as [s [v [HRr ->]]].
    apply HR in HRr as [HRr Hne].
    rewrite rf_fupd_neq by auto. apply rf_absf_R; auto.
  - intros e' Hne. destruct (rf_eid_dec e' e) as [->|Hd].
    + rewrite rf_fupd_eq in Hne. congruence.
    + rewrite rf_fupd_neq in Hne by auto.
      destruct (absf w e') as [cv|] eqn:E; [|congruence].
      apply rf_absf_R_inv in E as [s [v [HRr ->]]].
      exists (row_abs s v). apply rf_in_abs. exists s, v; split; auto.
      apply HR. auto.
Qed.

(** A batch of rows with fresh, pairwise distinct keys is added. *)
Lemma rf_fupd_all_notin kvs : forall (m : fmap) e,
  ~ In e (map fst kvs) -> fupd_all m kvs e = m e.
Proof.
  induction kvs as [|[k v] t IH]; intros m e Hn; cbn [fupd_all]; [reflexivity|].
  cbn [map fst] in Hn. rewrite IH by (intros Hc; apply Hn; right; exact Hc).
  apply rf_fupd_neq. intros ->. apply Hn; left; reflexivity.
Qed.

Lemma rf_fupd_all_in kvs : forall (m : fmap) e cv,
  NoDup (map fst kvs) -> In (e, cv) kvs -> fupd_all m kvs e = Some cv.
Proof.
  induction kvs as [|[k v] t IH]; intros m e cv ND Hin; [destruct Hin|].
  cbn [map fst] in ND. inversion ND as [|? ? Hnin ND']; subst.
  cbn [fupd_all]. destruct Hin as [Heq|Hin].
  - inversion Heq; subst. rewrite rf_fupd_all_notin by auto. apply rf_fupd_eq.
  - apply IH; auto.
Qed.

Lemma rf_feq_ext w w' sh2 (news : list (eid * list val)) :
  Inv w -> NoDup (map fst news) ->
  (forall e v, In (e, v) news -> absf w e = None) ->
  (forall s e v, rf_R (w_archs w') s e v <->
     rf_R (w_archs w) s e v \/ (s = sh2 /\ In (e, v) news)) ->
  feq (absf w')
      (fupd_all (absf w) (map (fun p => (fst p, row_abs sh2 (snd p))) news)).
Proof.
  intros HI ND Hfresh HR.
  remember (map (fun p => (fst p, row_abs sh2 (snd p))) news) as kvs eqn:Ekvs.
  assert (Hk0 : map fst kvs = map fst news).
  { rewrite Ekvs. rewrite map_map. apply map_ext. intros p; reflexivity. }
  assert (NDk : NoDup (map fst kvs)) by (rewrite Hk0; exact ND).
  assert (Hkeys : forall x, In x (map fst kvs) -> exists v0, In (x, v0) news).
  { intros x Hx. rewrite Hk0 in Hx. apply in_map_iff in Hx as [[e0 v0] [He0 Hin0]].
    cbn [fst] in He0; subst; eauto. }
  apply rf_feq_intro.
  - intros e cv Hin. apply rf_in_abs in Hin as [s [v [HRr ->]]].
    apply HR in HRr as [HRr|[-> Hin]].
    + rewrite rf_fupd_all_notin.
      * apply rf_absf_R; auto.
      * intros Hk. apply Hkeys in Hk as [v0 Hin0].
        specialize (Hfresh _ _ Hin0).
        rewrite (rf_absf_R _ _ _ _ HI HRr) in Hfresh. discriminate.
    + apply rf_fupd_all_in.
      * exact NDk.
      * rewrite Ekvs. apply in_map_iff. exists (e, v). auto.
  - intros e Hne. destruct (in_dec rf_eid_dec e (map fst news)) as [Hk|Hk].
    + apply in_map_iff in Hk as [[e0 v0] [He0 Hin0]]. cbn [fst] in He0. subst e0.
      exists (row_abs sh2 v0). apply rf_in_abs. exists sh2, v0. split; auto.
      apply HR. right; auto.
    + rewrite rf_fupd_all_notin in Hne.
      2:{ intros Hc. apply Hkeys in Hc as [v0 Hc]. apply Hk.
          apply in_map_iff. exists (e, v0); auto. }
      destruct (absf w e) as [cv|] eqn:E; [|congruence].
      apply rf_absf_R_inv in E as [s [v [HRr ->]]].
      exists (row_abs s v). apply rf_in_abs. exists s, v; split; auto.
      apply HR. left; auto.
Qed.

(** * How the table primitives act on the row relation *)

Lemma rf_R_upd_arch sh f archs s e v :
  rf_R (upd_arch sh f archs) s e v <->
  exists a, In a archs /\ a_shape a = s /\
            In (e, v) (if shape_eqb s sh then f (a_rows a) else a_rows a).
Proof.
  unfold rf_R, upd_arch. split.
  - intros [b [Hb [Hs Hin]]]. apply in_map_iff in Hb as [a [Hab Ha]].
    exists a. split; auto.
    destruct (shape_eqb (a_shape a) sh) eqn:E; subst b; cbn [a_shape a_rows] in *;
      subst s; rewrite E; auto.
  - intros [a [Ha [Hs Hin]]].
    exists (if shape_eqb (a_shape a) sh then mkArch (a_shape a) (f (a_rows a)) else a).
    split; [apply in_map_iff; exists a; auto|].
    subst s. destruct (shape_eqb (a_shape a) sh); cbn [a_shape a_rows]; auto.
Qed.

Lemma rf_In_ensure_arch_l sh archs a : In a archs -> In a (ensure_arch sh archs).
Proof.
  unfold ensure_arch. destruct (find_arch sh archs); auto.
  intros H; apply in_or_app; auto.
Qed.

Lemma rf_R_ensure_arch sh archs s e v :
  rf_R (ensure_arch sh archs) s e v <-> rf_R archs s e v.
Proof.
  unfold rf_R. split; intros [a [Ha [Hs Hin]]].
  - apply In_ensure_arch in Ha as [Ha| ->].
    + exists a; auto.
    + cbn [a_rows] in Hin. destruct Hin.
  - exists a. split; auto. apply rf_In_ensure_arch_l; auto.
Qed.

Lemma rf_R_ensure_for_entity sh archs tid archs1 tid1 s e v :
  ensure_for_entity sh archs tid = Some (archs1, tid1) ->
  (rf_R archs1 s e v <-> rf_R archs s e v).
Proof.
  unfold ensure_for_entity. intros H.
  destruct (mem_shape sh tid).
  - destruct (find_arch sh archs); inversion H; subst. tauto.
  - inversion H; subst. apply rf_R_ensure_arch.
Qed.

Lemma rf_R_push sh news archs a0 s e v :
  find_arch sh archs = Some a0 ->
  (rf_R (upd_arch sh (fun rows => rows ++ news) archs) s e v <->
   rf_R archs s e v \/ (s = sh /\ In (e, v) news)).
Proof.
  intros Hf. rewrite rf_R_upd_arch. split.
  - intros [a [Ha [Hs Hin]]]. destruct (shape_eqb s sh) eqn:E.
    + apply shape_eqb_eq in E. apply in_app_or in Hin as [Hin|Hin].
      * left. exists a; auto.
      * right; auto.
    + left. exists a; auto.
  - intros [[a [Ha [Hs Hin]]] | [-> Hin]].
    + exists a. split; auto. split; auto.
      destruct (shape_eqb s sh); auto. apply in_or_app; auto.
    + exists a0. split; [eapply find_arch_In; eauto|].
      split; [eapply find_arch_shape; eauto|].
      rewrite shape_eqb_refl. apply in_or_app; auto.
Qed.

Lemma rf_In_single (e e0 : eid) (v v0 : list val) :
  In (e, v) [(e0, v0)] <-> e = e0 /\ v = v0.
Proof.
  split.
  - intros [H|[]]. inversion H; auto.
  - intros [-> ->]. left; reflexivity.
Qed.

Tactic Notation "rf_bind" hyp(H) simple_intropattern(pat) ident(E) :=
  match type of H with
  | obind ?o _ = _ => destruct o as [pat|] eqn:E; cbn [obind] in H; [|discriminate]
  end.

Lemma rf_move_row sh' id vals archs slots archs2 slots2 :
  move_row sh' id vals archs slots = Some (archs2, slots2) ->
  forall s e v, rf_R archs2 s e v <-> rf_R archs s e v \/ (s = sh' /\ e = id /\ v = vals).
Proof.
  unfold move_row. cbv zeta. intros H.
  rf_bind H a' Ef.
  rf_bind H sl Es.
  inversion H; subst archs2 slots2. intros s e v.
  rewrite (rf_R_push _ _ _ _ s e v Ef). rewrite rf_R_ensure_arch.
  rewrite rf_In_single. tauto.
Qed.

Lemma rf_R_shapes w sh e vals :
  Inv w -> rf_R (w_archs w) sh e vals ->
  length sh = w_n w /\ length vals = count_true sh.
Proof.
  intros HI [a [Ha [Hs Hin]]]. destruct (inv_shapes HI _ Ha) as [H1 H2].
  subst sh. split; auto. apply (H2 _ Hin).
Qed.

Lemma rf_take_row w e sh r archs1 slots1 rw :
  Inv w -> get_loc w e = Some (sh, r) ->
  take_row sh r (w_archs w) (w_slots w) = Some (archs1, slots1, rw) ->
  fst rw = e /\ rf_R (w_archs w) sh e (snd rw) /\
  (forall s e' v', rf_R archs1 s e' v' <-> rf_R (w_archs w) s e' v' /\ e' <> e).
Proof.
  intros HI Hg Ht. apply rf_get_loc_slot in Hg.
  destruct (inv_fwd HI _ Hg) as [a [vals [Hf Hr]]].
  assert (He : (fst e, snd e) = e) by (destruct e; reflexivity). rewrite He in Hr.
  unfold take_row in Ht. rewrite Hf in Ht. cbn [obind] in Ht.
  rewrite Hr in Ht. cbn [obind] in Ht.
  rf_bind Ht lastrow El.
  rf_bind Ht sl Esl.
  inversion Ht; subst archs1 slots1 rw. cbn [fst snd].
  assert (HRe : rf_R (w_archs w) sh e vals) by (eapply rf_find_R; eauto).
  split; auto. split; auto.
  assert (Hrl : r < length (a_rows a)) by (apply nth_error_Some; congruence).
  pose proof (inv_nodup HI) as ND.
  intros s e' v'. rewrite rf_R_upd_arch. split.
  - intros [a1 [Ha1 [Hs1 Hin]]]. destruct (shape_eqb s sh) eqn:E.
    + apply shape_eqb_eq in E. revert Hs1. subst s. intros Hs1.
      assert (a1 = a) by (eapply rf_arch_unique; eauto). subst a1.
      apply rf_In_swap_remove in Hin as [j [Hj Hnj]]; auto.
      split; [eapply rf_find_R; eauto|].
      intros ->. apply Hj. eapply rf_row_unique; eauto.
    + assert (HR1 : rf_R (w_archs w) s e' v') by (exists a1; auto).
      split; auto. intros ->. apply shape_eqb_neq in E. apply E.
      destruct (rf_R_fun _ _ _ _ _ _ HI HR1 HRe); auto.
  - intros [[a1 [Ha1 [Hs1 Hin]]] Hne]. exists a1. split; auto. split; auto.
    destruct (shape_eqb s sh) eqn:E; auto.
    apply shape_eqb_eq in E. revert Hs1. subst s. intros Hs1.
    assert (a1 = a) by (eapply rf_arch_unique; eauto). subst a1.
    apply In_nth_error in Hin as [j Hj]. apply rf_In_swap_remove; auto.
    exists j; split; auto. intros ->. pose proof (eq_trans (eq_sym Hj) Hr) as Hx. inversion Hx. congruence.
Qed.

Lemma rf_set_value w e sh r c v archs1 old :
  Inv w -> get_loc w e = Some (sh, r) ->
  set_value sh r c v (w_archs w) = Some (archs1, old) ->
  exists vals, rf_R (w_archs w) sh e vals /\
  (forall s e' v', rf_R archs1 s e' v' <->
     (rf_R (w_archs w) s e' v' /\ e' <> e) \/
     (s = sh /\ e' = e /\ v' = upd (rank c sh) (fun _ => v) vals)).
Proof.
  intros HI Hg Ht. apply rf_get_loc_slot in Hg.
  destruct (inv_fwd HI _ Hg) as [a [vals [Hf Hr]]].
  assert (He : (fst e, snd e) = e) by (destruct e; reflexivity). rewrite He in Hr.
  unfold set_value in Ht. rewrite Hf in Ht. cbn [obind] in Ht.
  rewrite Hr in Ht. cbn [obind snd] in Ht.
  rf_bind Ht old0 Eo.
  inversion Ht; subst archs1 old.
  assert (HRe : rf_R (w_archs w) sh e vals) by (eapply rf_find_R; eauto).
  exists vals. split; auto.
  pose proof (inv_nodup HI) as ND.
  intros s e' v'. rewrite rf_R_upd_arch. split.
  - intros [a1 [Ha1 [Hs1 Hin]]]. destruct (shape_eqb s sh) eqn:E.
    + apply shape_eqb_eq in E. revert Hs1. subst s. intros Hs1.
      assert (a1 = a) by (eapply rf_arch_unique; eauto). subst a1.
      apply rf_In_upd in Hin as [j [y [Hj Hy]]].
      destruct (Nat.eqb_spec j r) as [Hjr|Hjr].
      * subst j. pose proof (eq_trans (eq_sym Hj) Hr) as Hx. inversion Hx; subst y.
        cbn [fst snd] in Hy.
        inversion Hy; subst. right; auto.
      * subst y. left. split; [eapply rf_find_R; eauto|].
        intros ->. apply Hjr. eapply rf_row_unique; eauto.
    + assert (HR1 : rf_R (w_archs w) s e' v') by (exists a1; auto).
      left. split; auto. intros ->. apply shape_eqb_neq in E. apply E.
      destruct (rf_R_fun _ _ _ _ _ _ HI HR1 HRe); auto.
  - intros [[[a1 [Ha1 [Hs1 Hin]]] Hne] | [-> [-> ->]]].
    + exists a1. split; auto. split; auto.
      destruct (shape_eqb s sh) eqn:E; auto.
      apply shape_eqb_eq in E. revert Hs1. subst s. intros Hs1.
      assert (a1 = a) by (eapply rf_arch_unique; eauto). subst a1.
      apply In_nth_error in Hin as [j Hj]. apply rf_In_upd.
      exists j, (e', v'). split; auto.
      destruct (Nat.eqb_spec j r) as [Hjr|Hjr]; auto.
      subst j. pose proof (eq_trans (eq_sym Hj) Hr) as Hx. inversion Hx. congruence.
    + exists a. split; [eapply find_arch_In; eauto|].
      split; [eapply find_arch_shape; eauto|].
      rewrite shape_eqb_refl. apply rf_In_upd.
      exists r, (e, vals). split; auto. rewrite Nat.eqb_refl. reflexivity.
Qed.

(** * Freshness of the identifiers handed out by the allocator *)

Lemma rf_free_inactive w i g :
  Inv w -> In i (w_free w) -> absf w (i, g) = None.
Proof.
  intros HI Hin. apply rf_inactive_absf; auto.
  apply (inv_free HI) in Hin as [g0 Hg]. unfold is_active. cbn [fst].
  rewrite Hg. reflexivity.
Qed.

Lemma rf_beyond_inactive w i g :
  Inv w -> length (w_slots w) <= i -> absf w (i, g) = None.
Proof.
  intros HI Hle. apply rf_inactive_absf; auto.
  unfold is_active. cbn [fst].
  apply nth_error_None in Hle. rewrite Hle. reflexivity.
Qed.

Lemma rf_alloc_one_fresh w loc slots1 free1 id :
  Inv w -> alloc_one (w_slots w) (w_free w) loc = Some (slots1, free1, id) ->
  absf w id = None.
Proof.
  intros HI H. unfold alloc_one in H. destruct (w_free w) as [|i fr] eqn:Ef.
  - inversion H; subst. apply rf_beyond_inactive; auto.
  - rf_bind H s Es. inversion H; subst.
    apply rf_free_inactive; auto. rewrite Ef. left; reflexivity.
Qed.

Lemma rf_alloc_batch count : forall sh start slots free sl fr' ids,
  alloc_batch sh start count slots free = Some (sl, fr', ids) ->
  NoDup free -> (forall i, In i free -> i < length slots) ->
  length ids = count /\ NoDup (map fst ids) /\
  forall id, In id ids -> In (fst id) free \/ length slots <= fst id.
Proof.
  induction count as [|c IH]; intros sh start slots free sl fr' ids H ND Hb.
  - cbn [alloc_batch] in H. inversion H; subst. cbn. split; auto. split; [constructor|tauto].
  - cbn [alloc_batch] in H. destruct free as [|i fr].
    + assert (Hids : ids = map (fun k => (length slots + k, 0%N)) (seq 0 (S c)))
        by congruence.
      clear H. subst ids. split; [rewrite map_length, seq_length; reflexivity|].
      split.
      * rewrite map_map. cbn [fst]. rewrite rf_map_add_seq. apply seq_NoDup.
      * intros id Hin. apply in_map_iff in Hin as [k [Hk _]]. subst id. cbn [fst]. right; lia.
    + rf_bind H s Es.
      rf_bind H [[sl0 fr0] ids0] Er.
      inversion H; subst sl0 fr0 ids. clear H.
      inversion ND as [|? ? Hnin ND']; subst.
      assert (Hi : i < length slots) by (apply Hb; left; reflexivity).
      destruct (IH _ _ _ _ _ _ _ Er ND') as [Hlen [Hnd Hids]].
      { intros j Hj. rewrite upd_length. apply Hb; right; auto. }
      split; [cbn [length]; rewrite Hlen; reflexivity|]. split.
      * cbn [map fst]. constructor; auto. intros Hin.
        apply in_map_iff in Hin as [id [Hid Hin]].
        destruct (Hids _ Hin) as [Hf|Hge].
        -- rewrite Hid in Hf. contradiction.
        -- rewrite upd_length in Hge. lia.
      * intros id [<-|Hin]; [left; left; reflexivity|].
        destruct (Hids _ Hin) as [Hf|Hge]; [left; right; auto|].
        rewrite upd_length in Hge. right; auto.
Qed.

Lemma rf_extend_ids w sh start count sl fr' ids :
  Inv w -> alloc_batch sh start count (w_slots w) (w_free w) = Some (sl, fr', ids) ->
  length ids = count /\ NoDup ids /\ forall id, In id ids -> absf w id = None.
Proof.
  intros HI H.
  destruct (rf_alloc_batch _ _ _ _ _ _ _ _ H (inv_free_nodup HI)) as [Hlen [Hnd Hids]].
  { intros i Hin. apply (inv_free HI) in Hin as [g Hg].
    apply nth_error_Some. congruence. }
  split; auto. split; [eapply NoDup_map_inv; eauto|].
  intros [i g] Hin. destruct (Hids _ Hin) as [Hf|Hge]; cbn [fst] in *.
  - apply rf_free_inactive; auto.
  - apply rf_beyond_inactive; auto.
Qed.

(** * Clear *)

Lemma rf_clear_archs order : forall archs s f ev archs' s' f' ev',
  clear_archs order (archs, s, f, ev) = Some (archs', s', f', ev') ->
  forall a', In a' archs' ->
  exists a, In a archs /\ a_shape a' = a_shape a /\
            (a_rows a' = [] \/ (a' = a /\ ~ In (a_shape a) order)).
Proof.
  induction order as [|sh t IH]; intros archs s f ev archs' s' f' ev' H a' Ha'.
  - cbn [clear_archs] in H. inversion H; subst. exists a'.
    split; [assumption|]. split; [reflexivity|]. right. split; [reflexivity|]. intros [].
  - cbn [clear_archs] in H. unfold clear_arch in H.
    destruct (find_arch sh archs) as [a0|] eqn:Ef.
    + rf_bind H [[[archs1 s1] f1] ev1] E1.
      rf_bind E1 [s2 f2] E2. inversion E1; subst archs1 s1 f1 ev1. clear E1.
      destruct (IH _ _ _ _ _ _ _ _ H _ Ha') as [a1 [Ha1 [Hs1 Hor]]].
      apply In_upd_arch in Ha1 as [a [Ha Heq]]. exists a. split; auto.
      destruct (shape_eqb (a_shape a) sh) eqn:E; subst a1; cbn [a_shape a_rows] in *.
      * split; auto. left. destruct Hor as [Hor|[-> _]]; auto.
      * split; auto. destruct Hor as [Hor|[-> Hn]]; auto.
        right. split; auto. intros [Hc|Hc]; auto.
        apply shape_eqb_neq in E. congruence.
    + cbn [obind] in H.
      destruct (IH _ _ _ _ _ _ _ _ H _ Ha') as [a1 [Ha1 [Hs1 Hor]]].
      exists a1. split; auto. split; auto.
      destruct Hor as [Hor|[-> Hn]]; auto.
      right. split; auto. intros [Hc|Hc]; auto.
      apply find_arch_None in Ef. apply Ef. rewrite Hc. apply in_map; auto.
Qed.

(** * The operations, one by one *)

Lemma rf_feq_refl (m : fmap) : feq m m.
Proof. intros e; reflexivity. Qed.

Lemma rf_get_loc_none_absf w e : Inv w -> get_loc w e = None -> absf w e = None.
Proof.
  intros HI Hg. apply rf_inactive_absf; auto.
  destruct (is_active w e) eqn:E; auto.
  apply active_get_loc in E. contradiction.
Qed.

Lemma rf_get_loc_R w e sh r :
  Inv w -> get_loc w e = Some (sh, r) -> exists vals, rf_R (w_archs w) sh e vals.
Proof.
  intros HI Hg. apply rf_get_loc_slot in Hg.
  destruct (inv_fwd HI _ Hg) as [a [vals [Hf Hr]]].
  assert (He : (fst e, snd e) = e) by (destruct e; reflexivity). rewrite He in Hr.
  exists vals. eapply rf_find_R; eauto.
Qed.

Lemma rf_insert w ent w' r evs :
  Inv w -> do_insert w ent = Some (w', r, evs) ->
  spec_step (w_n w) (absf w) (Insert ent) r (absf w').
Proof.
  intros HI H. unfold do_insert in H. cbv zeta in H. cbn [spec_step].
  destruct (wf_comps (w_n w) (map fst ent)) eqn:Ewf; cbn [negb] in H.
  2:{ inversion H; subst. split; auto. apply rf_feq_refl. }
  remember (shape_of (w_n w) (map fst ent)) as sh eqn:Esh.
  rf_bind H [archs1 tid1] Ee.
  rf_bind H a Ef.
  rf_bind H [[slots1 free1] id] Ea.
  inversion H; subst w' r evs. clear H.
  pose proof (rf_alloc_one_fresh _ _ _ _ _ HI Ea) as Hfresh.
  exists id. split; auto. split; auto.
  rewrite <- rf_row_abs_canon. rewrite <- Esh.
  apply rf_feq_add; auto.
  intros s e' v'. cbn [w_archs with_store].
  rewrite (rf_R_push _ _ _ _ s e' v' Ef).
  rewrite (rf_R_ensure_for_entity _ _ _ _ _ s e' v' Ee).
  rewrite rf_In_single. tauto.
Qed.

Lemma rf_batch_rows_In comps rows0 rw : In rw (batch_rows comps rows0) -> In rw rows0.
Proof. unfold batch_rows, batch_rows_gen. destruct fact_batch_carries_row_count; [auto|]. destruct comps; auto. intros []. Qed.

Lemma rf_extend w comps rows0 w' r evs :
  Inv w -> do_extend w comps rows0 = Some (w', r, evs) ->
  spec_step (w_n w) (absf w) (Extend comps rows0) r (absf w').
Proof.
  intros HI H. unfold do_extend in H. cbv zeta in H. cbn [spec_step].
  destruct (wf_comps (w_n w) comps &&
            forallb (fun r => Nat.eqb (length r) (length comps)) rows0) eqn:Ewf;
    cbn [negb] in H.
  2:{ inversion H; subst. split; auto. apply rf_feq_refl. }
  apply andb_true_iff in Ewf as [_ Hall].
  remember (shape_of (w_n w) comps) as sh eqn:Esh.
  remember (batch_rows comps rows0) as rows eqn:Erows.
  rf_bind H [archs1 tid1] Ee.
  rf_bind H a Ef.
  rf_bind H [[slots1 free1] ids] Ea.
  inversion H; subst w' r evs. clear H.
  destruct (rf_extend_ids _ _ _ _ _ _ _ HI Ea) as [Hlen [Hnd Hfresh]].
  exists ids. split; auto. split; auto. split; auto. split; auto.
  remember (map (fun p : eid * list val => (fst p, canon_vals sh (combine comps (snd p))))
                (combine ids rows)) as news eqn:Enews.
  assert (Hkeys : map fst news = ids).
  { rewrite Enews, map_map. cbn [fst].
    change (map (fun x : eid * list val => fst x) (combine ids rows))
      with (map fst (combine ids rows)).
    apply rf_map_fst_combine; auto. }
  assert (Hkv : combine ids (map (fun rw => cvec_of (w_n w) (combine comps rw)) rows) =
                map (fun p => (fst p, row_abs sh (snd p))) news).
  { rewrite rf_combine_map_r, Enews, map_map. apply map_ext_in.
    intros [id rw] Hin. cbn [fst snd]. f_equal.
    apply in_combine_r in Hin. rewrite Erows in Hin. apply rf_batch_rows_In in Hin.
    rewrite forallb_forall in Hall. apply Hall in Hin. apply Nat.eqb_eq in Hin.
    rewrite <- rf_row_abs_canon.
    rewrite rf_map_fst_combine by auto. rewrite <- Esh. reflexivity. }
  rewrite Hkv. apply rf_feq_ext; auto.
  - rewrite Hkeys; auto.
  - intros e v Hin. apply Hfresh. rewrite <- Hkeys.
    apply in_map_iff. exists (e, v); auto.
  - intros s e' v'. cbn [w_archs with_store].
    rewrite (rf_R_push _ _ _ _ s e' v' Ef).
    rewrite (rf_R_ensure_for_entity _ _ _ _ _ s e' v' Ee).
    tauto.
Qed.

Lemma rf_remove w e w' r evs :
  Inv w -> do_remove w e = Some (w', r, evs) ->
  spec_step (w_n w) (absf w) (Remove e) r (absf w').
Proof.
  intros HI H. unfold do_remove in H. cbn [spec_step].
  destruct (get_loc w e) as [[sh r0]|] eqn:Eg.
  - rf_bind H [[archs1 slots1] rw] Et.
    rf_bind H [slots2 free2] Efr.
    inversion H; subst w' r evs. clear H. split; auto.
    destruct (rf_take_row _ _ _ _ _ _ _ HI Eg Et) as [_ [_ HR]].
    apply rf_feq_del; auto.
  - inversion H; subst w' r evs. split; auto.
    intros e'. unfold fupd. destruct (eid_eqb e' e) eqn:E; auto.
    apply eid_eqb_eq in E; subst. apply rf_get_loc_none_absf; auto.
Qed.

Lemma rf_clear w visit w' r evs :
  Inv w -> do_clear w visit = Some (w', r, evs) ->
  spec_step (w_n w) (absf w) (Clear visit) r (absf w').
Proof.
  intros HI H. unfold do_clear in H. cbn [spec_step].
  rf_bind H [[[archs1 slots1] free1] evs1] Ec.
  inversion H; subst w' r evs. clear H. split; auto.
  apply rf_feq_intro.
  - intros e cv Hin. exfalso.
    apply rf_in_abs in Hin as [s [v [[a' [Ha' [Hs Hin]]] _]]].
    cbn [w_archs with_store] in Ha'.
    destruct (rf_clear_archs _ _ _ _ _ _ _ _ _ Ec _ Ha') as [a [Ha [_ [Hnil|[-> Hn]]]]].
    + rewrite Hnil in Hin. destruct Hin.
    + apply Hn. apply in_or_app. right. apply in_map; auto.
  - intros e Hne. congruence.
Qed.

Lemma rf_entry_add w e c v w' r evs :
  Inv w -> do_entry_add w e c v = Some (w', r, evs) ->
  spec_step (w_n w) (absf w) (EntryAdd e c v) r (absf w').
Proof.
  intros HI H. unfold do_entry_add in H. cbn [spec_step].
  destruct (Nat.ltb c (w_n w)) eqn:Ec; cbn [negb] in H.
  2:{ inversion H; subst. split; auto. apply rf_feq_refl. }
  apply Nat.ltb_lt in Ec.
  destruct (get_loc w e) as [[sh r0]|] eqn:Eg.
  2:{ inversion H; subst. rewrite (rf_get_loc_none_absf _ _ HI Eg).
      split; auto. apply rf_feq_refl. }
  destruct (get_bit c sh) eqn:Eb.
  - rf_bind H [archs1 old] Es.
    inversion H; subst w' r evs. clear H.
    destruct (rf_set_value _ _ _ _ _ _ _ _ HI Eg Es) as [vals [HRe HR]].
    destruct (rf_R_shapes _ _ _ _ HI HRe) as [Hn Hl].
    rewrite (rf_absf_R _ _ _ _ HI HRe). split; auto.
    rewrite <- rf_row_abs_overwrite by auto.
    apply rf_feq_set; auto.
  - rf_bind H [[archs1 slots1] rw] Et.
    cbv zeta in H.
    rf_bind H [archs2 slots2] Em.
    inversion H; subst w' r evs. clear H.
    destruct (rf_take_row _ _ _ _ _ _ _ HI Eg Et) as [Hfst [HRe HR1]].
    destruct (rf_R_shapes _ _ _ _ HI HRe) as [Hn Hl].
    rewrite (rf_absf_R _ _ _ _ HI HRe). split; auto.
    rewrite <- rf_row_abs_insert by (auto; lia).
    apply rf_feq_set; auto.
    intros s e' v'. cbn [w_archs with_store].
    rewrite (rf_move_row _ _ _ _ _ _ _ Em s e' v'). rewrite HR1. rewrite Hfst. tauto.
Qed.

Lemma rf_entry_remove w e c w' r evs :
  Inv w -> do_entry_remove w e c = Some (w', r, evs) ->
  spec_step (w_n w) (absf w) (EntryRemove e c) r (absf w').
Proof.
  intros HI H. unfold do_entry_remove in H. cbn [spec_step].
  destruct (Nat.ltb c (w_n w)) eqn:Ec; cbn [negb] in H.
  2:{ inversion H; subst. split; auto. apply rf_feq_refl. }
  apply Nat.ltb_lt in Ec.
  destruct (get_loc w e) as [[sh r0]|] eqn:Eg.
  2:{ inversion H; subst. rewrite (rf_get_loc_none_absf _ _ HI Eg).
      split; auto. apply rf_feq_refl. }
  destruct (get_bit c sh) eqn:Eb.
  - rf_bind H [[archs1 slots1] rw] Et.
    rf_bind H old Eo.
    cbv zeta in H.
    rf_bind H [archs2 slots2] Em.
    inversion H; subst w' r evs. clear H.
    destruct (rf_take_row _ _ _ _ _ _ _ HI Eg Et) as [Hfst [HRe HR1]].
    rewrite (rf_absf_R _ _ _ _ HI HRe). split; auto.
    rewrite <- rf_row_abs_remove by auto.
    apply rf_feq_set; auto.
    intros s e' v'. cbn [w_archs with_store].
    rewrite (rf_move_row _ _ _ _ _ _ _ Em s e' v'). rewrite HR1. rewrite Hfst. tauto.
  - inversion H; subst w' r evs. clear H.
    destruct (rf_get_loc_R _ _ _ _ HI Eg) as [vals HRe].
    destruct (rf_R_shapes _ _ _ _ HI HRe) as [Hn Hl].
    rewrite (rf_absf_R _ _ _ _ HI HRe). split; auto.
    rewrite rf_upd_same.
    + intros e'. unfold fupd. destruct (eid_eqb e' e) eqn:E; auto.
      apply eid_eqb_eq in E; subst. apply rf_absf_R; auto.
    + rewrite rf_nth_row_abs, Eb.
      destruct (Nat.ltb_spec c (length sh)); [reflexivity|lia].
Qed.

Lemma rf_write w e c v w' r evs :
  Inv w -> do_write w e c v = Some (w', r, evs) ->
  spec_step (w_n w) (absf w) (WriteMut e c v) r (absf w').
Proof.
  intros HI H. unfold do_write in H. cbn [spec_step].
  destruct (Nat.ltb c (w_n w)) eqn:Ec; cbn [negb] in H.
  2:{ inversion H; subst. split; auto. apply rf_feq_refl. }
  apply Nat.ltb_lt in Ec.
  destruct (get_loc w e) as [[sh r0]|] eqn:Eg.
  2:{ inversion H; subst. rewrite (rf_get_loc_none_absf _ _ HI Eg).
      split; auto. apply rf_feq_refl. }
  destruct (rf_get_loc_R _ _ _ _ HI Eg) as [vals0 HRe0].
  destruct (rf_R_shapes _ _ _ _ HI HRe0) as [Hn Hl].
  rewrite (rf_absf_R _ _ _ _ HI HRe0).
  assert (Hnth : nth c (row_abs sh vals0) None =
                 if get_bit c sh then nth_error vals0 (rank c sh) else None).
  { apply nth_error_nth. rewrite rf_nth_row_abs.
    destruct (Nat.ltb_spec c (length sh)); [reflexivity|lia]. }
  rewrite Hnth.
  destruct (get_bit c sh) eqn:Eb.
  - pose proof (rf_rank_lt_count _ _ Eb) as Hrk.
    destruct (nth_error vals0 (rank c sh)) as [x|] eqn:Ex.
    2:{ apply nth_error_None in Ex. lia. }
    rf_bind H [archs1 old] Es.
    inversion H; subst w' r evs. clear H.
    destruct (rf_set_value _ _ _ _ _ _ _ _ HI Eg Es) as [vals [HRe HR]].
    destruct (rf_R_fun _ _ _ _ _ _ HI HRe HRe0) as [_ ->].
    split; auto.
    rewrite <- rf_row_abs_overwrite by auto.
    apply rf_feq_set; auto.
  - inversion H; subst w' r evs. split; auto. apply rf_feq_refl.
Qed.

Lemma rf_reserve w comps w' r evs :
  Inv w -> do_reserve w comps = Some (w', r, evs) -> feq (absf w') (absf w).
Proof.
  intros HI H. unfold do_reserve in H. cbv zeta in H.
  destruct (wf_comps (w_n w) comps); cbn [negb] in H.
  2:{ inversion H; subst. apply rf_feq_refl. }
  rf_bind H [archs1 tid1] Ee.
  inversion H; subst w' r evs. clear H.
  apply rf_feq_same; auto. intros s e v. cbn [w_archs with_store].
  apply (rf_R_ensure_for_entity _ _ _ _ _ s e v Ee).
Qed.

Lemma rf_shrink w w' r evs :
  Inv w -> do_shrink w = Some (w', r, evs) -> feq (absf w') (absf w).
Proof.
  intros HI H. unfold do_shrink in H. cbv zeta in H.
  inversion H; subst w' r evs. clear H.
  apply rf_feq_same; auto. intros s e v. cbn [w_archs with_store].
  unfold rf_R. split; intros [a [Ha [Hs Hin]]]; exists a.
  - apply filter_In in Ha as [Ha _]. auto.
  - split; auto. apply filter_In. split; auto.
    destruct (a_rows a); [destruct Hin|reflexivity].
Qed.

Lemma rf_res_set w i v w' r evs :
  Inv w -> do_res_set w i v = Some (w', r, evs) -> feq (absf w') (absf w).
Proof.
  intros HI H. unfold do_res_set in H.
  destruct (nth_error (w_res w) i); inversion H; subst w' r evs;
    apply rf_feq_same; auto; intros s0 e0 vv; cbn [w_archs]; tauto.
Qed.

(** * The theorems *)

Theorem step_refines : forall w o w' r evs, Inv w -> step w o = Some (w', r, evs) ->
   spec_step (w_n w) (absf w) o r (absf w').
Proof.
  intros w o w' r evs HI H. destruct o; cbn [step] in H.
  - eapply rf_insert; eauto.
  - eapply rf_extend; eauto.
  - eapply rf_remove; eauto.
  - pose proof (@rf_clear w _ w' r evs HI H) as X. cbn [spec_step] in *. exact X.
  - eapply rf_entry_add; eauto.
  - eapply rf_entry_remove; eauto.
  - eapply rf_write; eauto.
  - cbn [spec_step]. eapply rf_reserve; eauto.
  - cbn [spec_step]. eapply rf_shrink; eauto.
  - cbn [spec_step]. eapply rf_res_set; eauto.
Qed.

Ltac rf_res H :=
  repeat first
    [ progress cbv zeta in H
    | match type of H with
      | obind ?o _ = _ => destruct o as [?|] eqn:?; cbn [obind] in H; [|discriminate]
      | (if ?b then _ else _) = _ => destruct b
      | (match ?x with _ => _ end) = _ => destruct x
      end ];
  inversion H; subst; reflexivity.

Theorem step_res : forall w o w' r evs, step w o = Some (w', r, evs) ->
   w_res w' = spec_res (w_res w) o.
Proof.
  intros w o w' r evs H. destruct o; cbn [step spec_res] in *.
  - unfold do_insert in H. rf_res H.
  - unfold do_extend in H. rf_res H.
  - unfold do_remove in H. rf_res H.
  - unfold do_clear in H. rf_res H.
  - unfold do_entry_add in H. rf_res H.
  - unfold do_entry_remove in H. rf_res H.
  - unfold do_write in H. rf_res H.
  - unfold do_reserve in H. rf_res H.
  - unfold do_shrink in H. rf_res H.
  - unfold do_res_set in H. destruct (nth_error (w_res w) i) as [old|] eqn:E.
    + inversion H; subst. reflexivity.
    + inversion H; subst. apply nth_error_None in E.
      rewrite upd_oob by auto. reflexivity.
Qed.

Print Assumptions step_refines.
Print Assumptions step_res.
Print Assumptions absf_active.
Print Assumptions active_get_loc.
Print Assumptions abs_keys_nodup.
Print Assumptions len_is_count.
Print Assumptions cvec_of_perm.
