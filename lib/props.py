"""Per-property checks."""
import json
import os
import sys
import time
from collections import Counter

import common
from common import (EVIDENCE, REPLAYS, TRUSTED_BASE, VERIF, Infra, check_props, load_known, write_evidence,
                    write_replay)

# --------------------------------------------------------------------- world-history family

WH = {
    # pid: (views compared with the model, compare ret, compare events, op filter, description)
    "C01": (["content"], True, False, None),
    "C02": (["content", "alloc"], True, False, None),
    "C04": ([], False, True, None),
    "C06": (["content", "alloc", "res"], True, False, None),
    "C10": (["content", "alloc", "res", "struct"], True, True, None),
    "C13": (["content", "alloc", "struct"], True, False, None),
    "C15": (["res"], False, False, None),
    "C16": ([], True, False, lambda op: op.startswith("eq ")),
}

WH_RULE = ("histories generated from one SplitMix64 state (VERIF_SEED): insert/extend in two textual component "
           "orders, remove/Entry::add/Entry::remove/write on live, stale and never-issued identifiers, clear, "
           "shrink_to_fit, reserve, resource writes, clone, clone_from, serde round trips (both encodings), ==, "
           "world drop, on up to 3 worlds over a 5-component registry (8-byte, zero-sized, 32-aligned, "
           "heap-owning, 4-byte). A case is non-trivial if it hits at least one corner from {slot reuse, "
           "swap-remove of a non-last row, stale-identifier remove, batch </=/> free list, shape change, shrink, "
           "clone, clone_from, serde}; distinct = distinct op sequences among those.")


def wh_check(pid, tier, seed, t0):
    import wh
    proof = check_props(pid)
    eng = wh.engine(seed, tier)
    views, with_ret, with_ev, opf = WH[pid]
    known = [k for k in load_known() if k["property"] == pid and k["status"] == "known"]
    known_classes = {k.get("class") for k in known}
    diverged = []
    viol = []
    known_hits = Counter()
    nontrivial = set()
    corners = Counter()
    steps_total = 0
    for idx, (ic, orc) in enumerate(zip(eng["impl"], eng["oracle"])):
        steps_total += len(ic["steps"])
        mc = eng["model"][idx] if idx < len(eng["model"]) else {"steps": []}
        d = wh.first_divergence(ic, mc, views, with_ret, with_ev, opf)
        if d is not None:
            diverged.append((idx, d))
        for (si, p, msg) in orc["fails"]:
            if p == pid or p == "*":
                viol.append((idx, si, msg))
                break
        for (si, cls) in orc["known"]:
            if cls in known_classes:
                known_hits[cls] += 1
        if orc["corners"]:
            nontrivial.add(tuple(eng["cases"][idx]) if idx < len(eng["cases"]) else idx)
        for c in orc["corners"]:
            corners[c] += 1
    crashed = [s for s in eng["shards"] if s["rc"] != 0]
    n_impl = len(eng["impl"])
    incomplete = n_impl < len(eng["cases"]) or any(
        len(ic["steps"]) < len(eng["cases"][i]) for i, ic in enumerate(eng["impl"]) if i < len(eng["cases"]))
    rc = 0
    replay_path = None
    if viol:
        idx, si, msg = viol[0]
        ops = eng["cases"][idx]
        small = shrink_wh(ops, pid, msg)
        replay_path = write_replay(pid, seed, {
            "property": pid, "kind": "failing-history", "message": msg, "case_index": idx, "failing_step": si,
            "ops": ops[:si + 2], "shrunk_ops": small,
            "how_to_replay": "./check %s --replay %s" % (pid, os.path.join("replays", "%s-%s.json" % (pid, seed)))})
        print("VIOLATION property=%s replay=%s" % (pid, replay_path))
        print("  " + msg)
        rc = 1
    elif not proof["ok"] or diverged or crashed or incomplete:
        what = []
        if not proof["ok"]:
            what.append({"theorem_or_file": proof["failed_theorem"], "log": proof["log"][-1500:]})
        if diverged:
            idx, d = diverged[0]
            what.append({"correspondence": "model vs implementation trace, views=%s" % views, "case_index": idx,
                         "step": d, "ops": eng["cases"][idx][:d + 2],
                         "impl": eng["impl"][idx]["steps"][d]["raw"] if d < len(eng["impl"][idx]["steps"]) else None,
                         "model": eng["model"][idx]["steps"][d]["raw"]
                         if idx < len(eng["model"]) and d < len(eng["model"][idx]["steps"]) else None})
        if crashed or incomplete:
            what.append({"harness": "implementation run crashed or produced an incomplete trace",
                         "stderr": [s["err"] for s in crashed][:2]})
        replay_path = write_replay(pid, seed, {"property": pid, "kind": "no-failing-input-found",
                                               "no_longer_checks": what})
        print("VIOLATION property=%s replay=%s no-failing-input-found" % (pid, replay_path))
        rc = 1
    for k in known:
        if known_hits[k["class"]] > 0:
            print("KNOWN-FINDING: property=%s %s (%s; reproduced %d times this run, witness %s)"
                  % (pid, k["what"], k["id"], known_hits[k["class"]], k.get("witness", "-")))
    samples = [{"case": i, "ops": eng["cases"][i][:12]} for i in range(min(2, len(eng["cases"])))]
    cov = {
        "obligations": proof["obligations"], "discharged": proof["discharged"],
        "checker_cmd": "make -C coq Props/%s.vo && coqc -Q coq Brood coq/Props/%s.v (Print Assumptions parsed)" % (pid, pid),
        "trusted_base": TRUSTED_BASE,
        "theorems": proof["theorems"], "print_assumptions_closed": proof.get("closed", 0), "axioms": proof["axioms"],
        "evaluations": len(eng["cases"]), "distinct_nontrivial": len(nontrivial), "rule": WH_RULE,
        "samples": samples, "traces_validated_against_impl": n_impl - len(diverged),
        "steps_compared": steps_total, "corpus_cases": eng["ncorpus"], "op_kinds": eng["opkinds"],
        "history_length": {"min": min(eng["lens"] or [0]), "max": max(eng["lens"] or [0]),
                           "mean": round(sum(eng["lens"]) / max(1, len(eng["lens"])), 1)},
        "corners_hit_cases": dict(corners), "views_compared": views, "engine_cached": eng["cached"],
        "known_finding_hits": dict(known_hits),
        "explanation": "theorems over the Gallina model (coq/Props/%s.v) + op-by-op correspondence of the "
                       "extracted model with the real library + spec-side oracles on the implementation trace" % pid,
    }
    write_evidence(pid, tier, seed, "proof", cov,
                   ["model tied to /repo by differential execution only (hand-written model)",
                    "archetype table order and Vec capacities are oracle inputs (clear order read from the implementation)"],
                   time.time() - t0, 1 if rc else 0)
    return rc


def shrink_wh(ops, pid, msg, budget=120):
    """Delta-debug the op list against the implementation-side oracle for `pid`."""
    import wh
    workdir = os.path.join(common.BUILD, "run", "shrink-%s" % pid)

    def fails(cand):
        sh = wh.run_cases([cand], workdir, shards=1, tag="s")
        if not sh or not os.path.exists(sh[0]["impl"]):
            return False
        impl = wh.parse_trace(sh[0]["impl"])
        if not impl:
            return False
        return any(p in (pid, "*") for (_, p, _) in wh.safe_oracle_case(impl[0])["fails"])

    cur = list(ops)
    try:
        if not fails(cur):
            return cur
        n = 2
        runs = 0
        while len(cur) >= 2 and runs < budget:
            chunk = max(1, len(cur) // n)
            reduced = False
            for i in range(0, len(cur), chunk):
                cand = cur[:i] + cur[i + chunk:]
                if not cand or not cand[0].startswith("new"):
                    continue
                runs += 1
                if fails(cand):
                    cur = cand
                    n = max(n - 1, 2)
                    reduced = True
                    break
            if not reduced:
                if chunk == 1:
                    break
                n = min(len(cur), n * 2)
    except Exception:
        pass
    return cur


def replay_wh(pid, path):
    import wh
    r = json.load(open(path))
    ops = r.get("shrunk_ops") or r.get("ops")
    if not ops:
        print("replay file names no history: %s" % json.dumps(r.get("no_longer_checks"))[:2000])
        return 1
    common.build_extract()
    err = common.build_harness(["wh"])
    if err:
        raise Infra(err[-2000:])
    sh = wh.run_cases([ops], os.path.join(common.BUILD, "run", "replay-%s" % pid), shards=1, tag="r")
    impl = wh.parse_trace(sh[0]["impl"])
    o = wh.safe_oracle_case(impl[0])
    bad = [(i, p, m) for (i, p, m) in o["fails"] if p in (pid, "*")]
    for l in ops:
        print("  " + l)
    if bad:
        print("VIOLATION property=%s replay=%s" % (pid, path))
        print("  step %d: %s" % (bad[0][0], bad[0][2]))
        return 1
    print("replay passes")
    return 0


# --------------------------------------------------------------------- schedule family

SCHED_RULE = ("a fixed family of %d schedule types (hand-written corner schedules: F4 witness shapes, dynamic-only "
              "independence through filters, three stages, entry views, resources only, readers only, ParSystems; plus "
              "seeded random tasks over 4 components and 2 resources with 0-3 views of the 4 kinds + Identifier, filters "
              "from Has/Not/And/Or, entry views, resource views) x worlds (the world without archetypes, fixed and random "
              "sets of 1-4 archetypes incl. empty ones) x execution orders through hook H2 (first-closure-first, "
              "second-first, seeded bit-string orders, real rayon on pools of 1 and 4 [thorough: 2,16]). Non-trivial: "
              "the run has at least two tasks under a common join or at least two stages; distinct = distinct "
              "(schedule, world, order) triples among those.")


def sched_check(pid, tier, seed, t0):
    import sched
    eng = sched.engine(seed, tier)
    proof = check_props(pid)
    fam, cases, obs = eng["fam"], eng["cases"], eng["obs"]
    viol = []
    diverged = []
    nontrivial = set()
    compared = 0
    for i, (c, ob) in enumerate(zip(cases, obs)):
        for (p, msg) in sched.oracle(c, ob, fam[c["k"]]):
            if p == pid or p == "*":
                viol.append((i, msg))
                break
        if ob is None or "error" in ob:
            continue
        seq, _ = sched.tree_of_events(ob["events"])
        if sched.par_pairs(seq) or len(seq) > 1:
            nontrivial.add((c["k"], c["spec"], c["mode"], c["order"], c["pool"]))
        if eng["model"] is not None:
            q = (c["k"], tuple(sorted(ob["shapes"])))
            m = eng["model"].get(q)
            compared += 1
            if m is None:
                diverged.append((i, "model rejects the schedule (run_schedule = None)"))
            elif m[1] != seq:
                diverged.append((i, "fork/join term differs: implementation %s, model %s (stages %s)"
                                 % (sched.show(seq), sched.show(m[1]), m[0])))
    rc = 0
    infra = []
    if eng["build_err"] or eng["missing"]:
        infra.append("schedule harness did not build: missing %s\n%s" % (eng["missing"], (eng["build_err"] or "")[-1500:]))
    if viol:
        i, msg = viol[0]
        c = cases[i]
        path = write_replay(pid, seed, {"property": pid, "kind": "failing-schedule-run", "message": msg,
                                        "schedule_index": c["k"], "schedule": fam[c["k"]], "world": c["spec"],
                                        "mode": c["mode"], "order": c["order"], "pool": c["pool"],
                                        "observation": {k: v for k, v in (obs[i] or {}).items() if k != "access"},
                                        "how_to_replay": "./check %s --replay replays/%s-%s.json" % (pid, pid, seed)})
        print("VIOLATION property=%s replay=%s" % (pid, path))
        print("  " + msg)
        rc = 1
    elif not proof["ok"] or diverged or eng["model_err"] or infra:
        what = []
        if not proof["ok"]:
            what.append({"theorem_or_file": proof["failed_theorem"], "log": proof["log"][-1500:]})
        if eng["model_err"]:
            what.append({"model": "the Gallina model could not be evaluated on the regenerated tables", "log": eng["model_err"][-1500:]})
        if diverged:
            i, msg = diverged[0]
            c = cases[i]
            what.append({"correspondence": "fork/join term of the run vs run_schedule of the model", "message": msg,
                         "schedule_index": c["k"], "schedule": fam[c["k"]], "world": c["spec"], "mode": c["mode"],
                         "order": c["order"], "n_diverged": len(diverged)})
        if infra:
            what.append({"harness": infra[0]})
        if infra and proof["ok"] and not diverged and not eng["model_err"]:
            raise Infra(infra[0])
        path = write_replay(pid, seed, {"property": pid, "kind": "no-failing-input-found", "no_longer_checks": what,
                                        "translator": eng["translator"]})
        print("VIOLATION property=%s replay=%s no-failing-input-found" % (pid, path))
        rc = 1
    samples = []
    for i in range(0, len(cases), max(1, len(cases) // 3)):
        c, ob = cases[i], obs[i]
        if ob and "error" not in ob:
            samples.append({"schedule": fam[c["k"]], "world": c["spec"], "mode": c["mode"], "order": c["order"],
                            "pool": c["pool"], "fork_join_term": sched.show(sched.tree_of_events(ob["events"])[0])})
    cov = {
        "obligations": proof["obligations"], "discharged": proof["discharged"],
        "checker_cmd": "tools/translate.py -> coq/Gen/Tables.v; make -C coq Props/%s.vo && coqc -Q coq Brood coq/Props/%s.v (Print Assumptions parsed)" % (pid, pid),
        "trusted_base": TRUSTED_BASE, "theorems": proof["theorems"], "print_assumptions_closed": proof.get("closed", 0),
        "axioms": proof["axioms"], "translator": eng["translator"],
        "evaluations": len(cases), "distinct_nontrivial": len(nontrivial), "rule": SCHED_RULE % len(fam),
        "samples": samples[:3], "traces_validated_against_impl": compared - len(diverged),
        "model_queries": len(eng["queries"]), "schedules": len(fam),
        "modes": dict(Counter("mode%d/pool%d" % (c["mode"], c["pool"]) for c in cases)),
        "engine_cached": eng["cached"],
        "explanation": "theorems over the Gallina scheduling model (coq/Props/%s.v; tables regenerated from the Rust source) + "
                       "fork/join term of every real run (hook H2) compared with the model + spec-side oracles (sequential "
                       "reference, recorded reachable addresses of join-parallel tasks, greedy grouping) on the implementation" % pid,
    }
    write_evidence(pid, tier, seed, "proof", cov,
                   ["tasks are atomic in the model: instruction-level interleavings inside overlapping tasks are not exhibited (DRF => SC assumed once C08 holds)",
                    "rayon::join contract: both closures run exactly once and join returns after both",
                    "user systems confined to what their query result hands them (C14)"],
                   time.time() - t0, 1 if rc else 0)
    return rc


def replay_sched(pid, path):
    import sched
    r = json.load(open(path))
    if "schedule_index" not in r:
        print("replay file names no run: %s" % json.dumps(r.get("no_longer_checks"))[:2000])
        return 1
    fam, err, missing = sched.build()
    c = {"k": r["schedule_index"], "mode": r["mode"], "order": r["order"], "pool": r["pool"], "spec": r["world"]}
    ob = sched.run_impl([c])[0]
    bad = [(p, m) for (p, m) in sched.oracle(c, ob, fam[c["k"]]) if p in (pid, "*")]
    print("schedule %d on world '%s' mode %d order %d pool %d" % (c["k"], c["spec"], c["mode"], c["order"], c["pool"]))
    if bad:
        print("VIOLATION property=%s replay=%s" % (pid, path))
        print("  " + bad[0][1])
        return 1
    print("replay passes")
    return 0


# --------------------------------------------------------------------- dispatch

def run_check(pid, tier, seed, t0):
    if pid in WH:
        return wh_check(pid, tier, seed, t0)
    if pid in ("C07", "C08", "C12"):
        return sched_check(pid, tier, seed, t0)
    raise Infra("no check registered for %s" % pid)


def replay(pid, path):
    if pid in WH:
        return replay_wh(pid, path)
    if pid in ("C07", "C08", "C12"):
        return replay_sched(pid, path)
    raise Infra("no replay for %s" % pid)
