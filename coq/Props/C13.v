(** C13 — Identifier index and storage stay in one-to-one correspondence.
    Property theorems only; proofs are in Proofs/.
    [Inv] (Proofs/Inv.v): shapes well-formed; one archetype per component set;
    an active slot points at the row holding its identifier and every stored row
    is pointed at by its identifier's slot (so the accepted identifiers are
    exactly the stored ones, each entity reachable through exactly one);
    the free queue is duplicate-free and is exactly the set of inactive slots
    (released identifiers are reusable, none lost or duplicated); len() counts
    the stored rows; type-id lookup targets exist. *)
From Brood Require Import Base World Multi BaseFacts Inv StepInv CloneEq SerdeL LenM LenFacts CloneFromW CloneFromWFacts IndexBridge.

Theorem C13_init : forall n res, Inv (empty_world n res).
Proof. exact empty_world_inv. Qed.
Check (C13_init : forall n res, Inv (empty_world n res)).
Print Assumptions C13_init.

(** After every single operation (any oracle answer for the clear order). *)
Theorem C13_step : forall w o w' r evs, Inv w -> step w o = Some (w', r, evs) -> Inv w'.
Proof. exact step_inv. Qed.
Check (C13_step : forall w o w' r evs, Inv w -> step w o = Some (w', r, evs) -> Inv w').
Print Assumptions C13_step.

(** Every state reachable by any history from a new world. *)
Theorem C13_reachable : forall n res ops w, run (empty_world n res) ops = Some w -> Inv w.
Proof. intros n res ops w H. exact (run_inv ops (empty_world n res) w (empty_world_inv n res) H). Qed.
Check (C13_reachable : forall n res ops w, run (empty_world n res) ops = Some w -> Inv w).
Print Assumptions C13_reachable.

(** … and no history ever gets stuck on an unchecked access. *)
Theorem C13_total : forall n res ops, run (empty_world n res) ops <> None.
Proof. intros n res ops. exact (run_safe ops (empty_world n res) (empty_world_inv n res)). Qed.
Check (C13_total : forall n res ops, run (empty_world n res) ops <> None).
Print Assumptions C13_total.

(** Through clone, clone_from and deserialization. *)
Theorem C13_clone : forall w w' evs, Inv w -> clone_world w = Some (w', evs) -> Inv w'.
Proof. intros w w' evs HI E. rewrite (clone_world_same _ _ _ E). exact HI. Qed.
Check (C13_clone : forall w w' evs, Inv w -> clone_world w = Some (w', evs) -> Inv w').
Print Assumptions C13_clone.

Theorem C13_clone_from : forall dst src w' evs, Inv dst -> Inv src -> w_n dst = w_n src ->
  clone_from_world dst src = Some (w', evs) -> Inv w'.
Proof. exact clone_from_inv. Qed.
Check (C13_clone_from : forall dst src w' evs, Inv dst -> Inv src -> w_n dst = w_n src ->
  clone_from_world dst src = Some (w', evs) -> Inv w').
Print Assumptions C13_clone_from.

Theorem C13_deserialize : forall n s w, de_world n s = inr w -> Inv w.
Proof. exact de_world_inv. Qed.
Check (C13_deserialize : forall n s w, de_world n s = inr w -> Inv w).
Print Assumptions C13_deserialize.

(** Non-vacuity: a history with slot reuse, a swap-remove of a non-last row,
    two shape changes, a batch larger than the free list, clear and shrink runs
    to completion (so every premise above is met along the way). *)
Example C13_example :
  match run (empty_world 3 [1%N])
            [Insert [(0, 5%N)]; Insert [(0, 6%N)]; Insert [(2, 7%N); (0, 8%N)];
             Remove (0, 0%N); EntryAdd (1, 0%N) 1 9%N; EntryRemove (2, 0%N) 0;
             Extend [1; 0] [[1%N; 2%N]; [3%N; 4%N]; [5%N; 6%N]];
             Remove (1, 0%N); ShrinkToFit; Clear []; Insert [(1, 1%N)]] with
  | Some w => w_len w = 1 /\ length (w_free w) = 4
  | None => False
  end.
Proof. vm_compute. auto. Qed.

(** "At every moment": also in the state a CAUGHT panic leaves behind.  [World::clear] interrupted by a
    panicking Drop in any archetype, [World::extend] interrupted before anything is stored: len() equals the
    number of stored entities.  The two orderings are read off the source (findings F13 and F16, repaired). *)
Theorem C13_len_after_interrupted_clear : forall ns len fault, len = total ns ->
  let '(ns', len') := clear_len ns len fault in len' = total ns'.
Proof. exact clear_len_consistent_src. Qed.
Check (C13_len_after_interrupted_clear : forall ns len fault, len = total ns ->
  let '(ns', len') := clear_len ns len fault in len' = total ns').
Print Assumptions C13_len_after_interrupted_clear.

Theorem C13_len_after_interrupted_extend : forall len n panics,
  let '(stored, len') := extend_len len n panics in len' = len + stored.
Proof. exact extend_len_consistent_src. Qed.
Print Assumptions C13_len_after_interrupted_extend.

Theorem C13_len_F13_F16_before_the_repair :
  (let '(ns', len') := clear_len_gen false [3; 2; 1] 6 (Some 1) in len' = 6 /\ total ns' = 1) /\
  extend_len_gen false 1 5 true = (0, 6).
Proof. exact (conj clear_len_stale extend_len_stale). Qed.
Print Assumptions C13_len_F13_F16_before_the_repair.

(** The identifier index, at the level of identifiers and rows alone ([Model/CloneFromW.v]): every accepted
    identifier points at a row holding it and every stored row is known to the allocator — preserved by a
    removal, by a push and by a shape change, for every world, whatever Drop panics on the way. *)
Theorem C13_index_after_remove : forall w i a r panics, WInv w -> nth_error (pw_slots w) i = Some (Some (a, r)) ->
  WInv (pw_remove w i a r panics).
Proof. exact remove_under_panic_keeps_WInv. Qed.
Print Assumptions C13_index_after_remove.

Theorem C13_index_after_shape_change : forall w i a r b panics, WInv w ->
  nth_error (pw_slots w) i = Some (Some (a, r)) -> b < length (pw_archs w) ->
  WInv (pw_entry_remove w i a r b panics).
Proof. exact entry_remove_under_panic_keeps_WInv. Qed.
Print Assumptions C13_index_after_shape_change.

(** ... and every reachable world is such a world: the identifier index of a world satisfying [Inv] satisfies
    [WInv] ([pw_of] forgets values and generations and names archetypes by position).  So for EVERY history, every
    identifier the world accepts and whatever Drop panics, the state [World::remove] leaves behind is consistent. *)
Theorem C13_reachable_index : forall n res ops w, run (empty_world n res) ops = Some w -> WInv (pw_of w).
Proof. intros n res ops w H. apply Inv_WInv. exact (C13_reachable n res ops w H). Qed.
Check (C13_reachable_index : forall n res ops w, run (empty_world n res) ops = Some w -> WInv (pw_of w)).
Print Assumptions C13_reachable_index.

Theorem C13_reachable_remove_under_panic : forall n res ops w i a r panics,
  run (empty_world n res) ops = Some w -> nth_error (pw_slots (pw_of w)) i = Some (Some (a, r)) ->
  WInv (pw_remove (pw_of w) i a r panics).
Proof.
  intros n res ops w i a r panics H Hi. apply remove_under_panic_keeps_WInv; [|exact Hi].
  exact (C13_reachable_index n res ops w H).
Qed.
Print Assumptions C13_reachable_remove_under_panic.

(** The index-level removal is not a model of its own: [World::remove] of the logical layer — the one the
    extracted model runs against the real library on every generated history — maps onto it under [pw_of],
    for every world satisfying [Inv] and every identifier it resolves. *)
Theorem C13_remove_is_index_remove : forall w e sh r w' o evs, Inv w -> get_loc w e = Some (sh, r) ->
  do_remove w e = Some (w', o, evs) ->
  pw_of w' = pw_remove (pw_of w) (fst e) (shape_index sh (w_archs w)) r false.
Proof. exact remove_is_pw_remove. Qed.
Check (C13_remove_is_index_remove : forall w e sh r w' o evs, Inv w -> get_loc w e = Some (sh, r) ->
  do_remove w e = Some (w', o, evs) ->
  pw_of w' = pw_remove (pw_of w) (fst e) (shape_index sh (w_archs w)) r false).
Print Assumptions C13_remove_is_index_remove.
