(** Proofs for C03: the table-driven filter and column walk of a query equal a
    comprehension over the identifier -> component-vector map. *)
From Brood Require Import Base World Spec Kinds Tables Sched Query BaseFacts Inv Refine.


(** * Table fact: a non-optional view, used as a filter, tests the component's bit *)
Lemma nonopt_view_filters k : is_opt_kind k = false -> view_filter_table k = true.
Proof. destruct k; cbn; intros H; try reflexivity; discriminate. Qed.

(** * Lists *)
Lemma skipn_cons_nth A (l : list A) k x t : skipn k l = x :: t -> nth_error l k = Some x /\ skipn (S k) l = t.
Proof.
  revert l. induction k as [|k IH]; intros [|y l] H; cbn in *; try discriminate.
  - inversion H; auto.
  - apply IH. exact H.
Qed.

Lemma skipn_nth_cons A (l : list A) k x : nth_error l k = Some x -> skipn k l = x :: skipn (S k) l.
Proof.
  revert l. induction k as [|k IH]; intros [|y l] H; cbn in *; try discriminate.
  - inversion H; reflexivity.
  - apply IH. exact H.
Qed.

Lemma nth_of_nth_error A (l : list A) k d x : nth_error l k = Some x -> nth k l d = x.
Proof. revert l. induction k as [|k IH]; intros [|y l] H; cbn in *; try discriminate; [congruence|auto]. Qed.

Lemma mapM_map A B (f : A -> option B) (g : A -> B) l : (forall x, In x l -> f x = Some (g x)) -> mapM f l = Some (map g l).
Proof.
  induction l as [|x t IH]; intros H; cbn; [reflexivity|].
  rewrite (H x (or_introl eq_refl)), IH; [reflexivity|]. intros y Hy. apply H. right. exact Hy.
Qed.

(** * The column walk *)
Definition expect_item (sh : shape) (vals : list val) (k : nat) (kd : vkind) : qitem :=
  if is_opt_kind kd then QOpt (if get_bit k sh then nth_error vals (rank k sh) else None)
  else QVal (nth (rank k sh) vals 0%N).

Fixpoint expect (k : nat) (bits : shape) (sh : shape) (vals : list val) (vs : list view) : list (nat * qitem) :=
  match bits with
  | [] => []
  | _ :: bs =>
      match kind_of k vs with
      | Some kd => (k, expect_item sh vals k kd) :: expect (S k) bs sh vals vs
      | None => expect (S k) bs sh vals vs
      end
  end.

Lemma get_bit_nth_error k sh b : nth_error sh k = Some b -> get_bit k sh = b.
Proof. unfold get_bit. intros H. apply nth_of_nth_error. exact H. Qed.

Lemma walk_expect sh vals vs :
  length vals = count_true sh ->
  (forall j kd, kind_of j vs = Some kd -> is_opt_kind kd = false -> j < length sh -> get_bit j sh = true) ->
  forall bits k, skipn k sh = bits ->
  walk k bits (skipn (rank k sh) vals) vs = Some (expect k bits sh vals vs).
Proof.
  intros HL HB. induction bits as [|b bs IH]; intros k Hs; cbn [walk expect]; [reflexivity|].
  destruct (skipn_cons_nth _ _ _ _ _ Hs) as [Hn Hs'].
  assert (Hk : k < length sh) by (apply nth_error_Some; congruence).
  pose proof (get_bit_nth_error _ _ _ Hn) as Hb.
  pose proof (rf_rank_S k sh Hk) as HS. rewrite Hb in HS.
  assert (Hcol : b = true -> skipn (rank k sh) vals = nth (rank k sh) vals 0%N :: skipn (rank (S k) sh) vals
                              /\ nth_error vals (rank k sh) = Some (nth (rank k sh) vals 0%N)).
  { intros ->. assert (Hlt : rank k sh < length vals) by (rewrite HL; apply rf_rank_lt_count; exact Hb).
    destruct (nth_error vals (rank k sh)) as [x|] eqn:Ex; [|apply nth_error_None in Ex; lia].
    rewrite (nth_of_nth_error val _ _ 0%N _ Ex). split; [|reflexivity].
    rewrite (skipn_nth_cons val _ _ _ Ex). f_equal. f_equal. lia. }
  destruct (kind_of k vs) as [kd|] eqn:Ek.
  - unfold expect_item. destruct (is_opt_kind kd) eqn:Eo.
    + destruct b.
      * destruct (Hcol eq_refl) as [Hc Hx]. rewrite Hc, (IH (S k) Hs'), Hb, Hx. reflexivity.
      * replace (rank k sh) with (rank (S k) sh) at 1 by lia. rewrite (IH (S k) Hs'), Hb. reflexivity.
    + assert (Hbt : b = true) by (rewrite <- Hb; eapply HB; eauto).
      destruct (Hcol Hbt) as [Hc Hx]. rewrite Hc, Hbt, (IH (S k) Hs'). reflexivity.
  - destruct b.
    + destruct (Hcol eq_refl) as [Hc _]. rewrite Hc. apply IH. exact Hs'.
    + replace (rank k sh) with (rank (S k) sh) by lia. apply IH. exact Hs'.
Qed.

Lemma expect_keys_ge k bits sh vals vs p : In p (expect k bits sh vals vs) -> k <= fst p.
Proof.
  revert k. induction bits as [|b bs IH]; intros k H; cbn in H; [contradiction|].
  destruct (kind_of k vs); [destruct H as [<-|H]; [cbn; lia|]|]; apply IH in H; lia.
Qed.

Lemma find_expect sh vals vs c kd : kind_of c vs = Some kd ->
  forall bits k, k <= c -> c < k + length bits ->
  find (fun p => Nat.eqb (fst p) c) (expect k bits sh vals vs) = Some (c, expect_item sh vals c kd).
Proof.
  intros Hc. induction bits as [|b bs IH]; intros k Hk Hlt; cbn [length] in Hlt; [lia|]. cbn [expect].
  destruct (Nat.eq_dec k c) as [->|Hne].
  - rewrite Hc. cbn [find fst]. rewrite Nat.eqb_refl. reflexivity.
  - destruct (kind_of k vs) as [kd'|].
    + cbn [find fst]. assert (E : Nat.eqb k c = false) by (apply Nat.eqb_neq; exact Hne). rewrite E.
      apply IH; lia.
    + apply IH; lia.
Qed.

(** * Views *)
Lemma kind_of_in vs kd c : NoDup (view_comps vs) -> In (VComp kd c) vs -> kind_of c vs = Some kd.
Proof.
  unfold kind_of. induction vs as [|v vs IH]; intros ND Hin; [contradiction|].
  cbn [find]. destruct v as [kd' c'|].
  - cbn [view_comps flat_map app] in ND. inversion ND as [|? ? Hn ND']; subst.
    destruct Hin as [E|Hin].
    + inversion E; subst. rewrite Nat.eqb_refl. reflexivity.
    + destruct (Nat.eqb c c') eqn:E.
      * apply Nat.eqb_eq in E. subst c'. exfalso. apply Hn.
        unfold view_comps. apply in_flat_map. exists (VComp kd c). split; [exact Hin|left; reflexivity].
      * apply IH; assumption.
  - cbn [view_comps flat_map app] in ND. destruct Hin as [E|Hin]; [discriminate|]. apply IH; assumption.
Qed.

Lemma in_view_comps vs kd c : In (VComp kd c) vs -> In c (view_comps vs).
Proof. intros H. unfold view_comps. apply in_flat_map. exists (VComp kd c). split; [exact H|left; reflexivity]. Qed.

Lemma kind_of_some_in vs c kd : kind_of c vs = Some kd -> In (VComp kd c) vs.
Proof.
  unfold kind_of. intros H. destruct (find _ vs) as [[k' c'|]|] eqn:E; try discriminate.
  inversion H; subst k'. apply find_some in E as [Hin Heq]. apply Nat.eqb_eq in Heq. subst c'. exact Hin.
Qed.

(** * One row *)
Lemma present_row_abs sh vals : length vals = count_true sh -> present (row_abs sh vals) = sh.
Proof.
  intros HL. apply rf_nth_error_ext. intros k. unfold present.
  rewrite nth_error_map, rf_nth_row_abs.
  destruct (Nat.ltb k (length sh)) eqn:E.
  - apply Nat.ltb_lt in E. cbn [option_map].
    destruct (nth_error sh k) as [b|] eqn:Eb; [|apply nth_error_None in Eb; lia].
    rewrite (get_bit_nth_error _ _ _ Eb). destruct b; [|reflexivity].
    assert (Hlt : rank k sh < length vals) by (rewrite HL; apply rf_rank_lt_count; apply (get_bit_nth_error _ _ _ Eb)).
    destruct (nth_error vals (rank k sh)) eqn:Ev; [reflexivity|apply nth_error_None in Ev; lia].
  - apply Nat.ltb_ge in E. cbn [option_map]. symmetry. apply nth_error_None. exact E.
Qed.

Lemma filter_views_bits vs f sh : filter_eval (query_filter vs f) sh = true ->
  forall j kd, kind_of j vs = Some kd -> is_opt_kind kd = false -> get_bit j sh = true.
Proof.
  unfold query_filter. cbn [filter_eval]. intros H j kd Hk Ho.
  apply andb_true_iff in H as [H _]. rewrite forallb_forall in H.
  specialize (H _ (kind_of_some_in _ _ _ Hk)). cbn [view_filter] in H.
  rewrite (nonopt_view_filters _ Ho) in H. exact H.
Qed.

Lemma view_row_spec n sh vs f id vals :
  wf_views n vs -> length sh = n -> length vals = count_true sh ->
  filter_eval (query_filter vs f) sh = true ->
  view_row sh vs (id, vals) = Some (map (spec_item id (row_abs sh vals)) vs).
Proof.
  intros [ND Hb] Hn HL HF. unfold view_row. cbn [fst snd].
  pose proof (walk_expect sh vals vs HL) as W.
  specialize (W (fun j kd Hk Ho _ => filter_views_bits _ _ _ HF _ _ Hk Ho) sh 0 eq_refl).
  change (rank 0 sh) with 0 in W. cbn [skipn] in W. rewrite W.
  apply mapM_map. intros v Hv. destruct v as [kd c|]; cbn [item_for spec_item]; [|reflexivity].
  pose proof (kind_of_in _ _ _ ND Hv) as Hk.
  assert (Hc : c < length sh) by (rewrite Hn; apply Hb; eapply in_view_comps; exact Hv).
  rewrite (find_expect sh vals vs c kd Hk sh 0) by lia. cbn [snd]. unfold expect_item.
  assert (Hnth : nth_error (row_abs sh vals) c = Some (if get_bit c sh then nth_error vals (rank c sh) else None)).
  { rewrite rf_nth_row_abs. apply Nat.ltb_lt in Hc. rewrite Hc. reflexivity. }
  rewrite (nth_of_nth_error _ _ _ None _ Hnth).
  destruct (is_opt_kind kd) eqn:Eo; [reflexivity|].
  rewrite (filter_views_bits _ _ _ HF _ _ Hk Eo).
  assert (Hlt : rank c sh < length vals).
  { rewrite HL. apply rf_rank_lt_count. eapply filter_views_bits; eauto. }
  destruct (nth_error vals (rank c sh)) as [x|] eqn:Ex; [|apply nth_error_None in Ex; lia].
  rewrite (nth_of_nth_error val _ _ 0%N _ Ex). reflexivity.
Qed.

(** * Whole queries *)
Lemma query_arch_spec n vs f a :
  wf_views n vs -> length (a_shape a) = n ->
  (forall rw, In rw (a_rows a) -> length (snd rw) = count_true (a_shape a)) ->
  query_arch vs f a =
  Some (query_spec (map (fun rw => (fst rw, row_abs (a_shape a) (snd rw))) (a_rows a)) vs f).
Proof.
  intros WF Hn HR. unfold query_arch, query_spec.
  destruct (filter_eval (query_filter vs f) (a_shape a)) eqn:EF.
  - rewrite (mapM_map _ _ _ (fun rw => map (spec_item (fst rw) (row_abs (a_shape a) (snd rw))) vs)).
    + f_equal. induction (a_rows a) as [|rw rows IH]; [reflexivity|]. cbn [map filter fst snd].
      unfold matches. rewrite present_row_abs by (apply HR; left; reflexivity). rewrite EF.
      cbn [map fst snd]. f_equal. apply IH. intros r Hr. apply HR. right. exact Hr.
    + intros [id vals] Hin. cbn [fst snd]. eapply view_row_spec; eauto. apply (HR _ Hin).
  - f_equal. induction (a_rows a) as [|rw rows IH]; [reflexivity|]. cbn [map filter fst snd].
    unfold matches. rewrite present_row_abs by (apply HR; left; reflexivity). rewrite EF.
    apply IH. intros r Hr. apply HR. right. exact Hr.
Qed.

Lemma query_spec_app m1 m2 vs f : query_spec (m1 ++ m2) vs f = query_spec m1 vs f ++ query_spec m2 vs f.
Proof. unfold query_spec. rewrite filter_app, map_app. reflexivity. Qed.

Theorem query_impl_spec w vs f : Inv w -> wf_views (w_n w) vs ->
  query_impl w vs f = Some (query_spec (abs w) vs f).
Proof.
  intros HI WF. unfold query_impl, abs.
  assert (G : forall archs, (forall a, In a archs -> In a (w_archs w)) ->
              query_archs vs f archs =
              Some (query_spec (flat_map (fun a => map (fun rw => (fst rw, row_abs (a_shape a) (snd rw))) (a_rows a)) archs) vs f)).
  { induction archs as [|a t IH]; intros Hsub; cbn [query_archs flat_map]; [reflexivity|].
    destruct (inv_shapes HI a (Hsub a (or_introl eq_refl))) as [Hn HR].
    rewrite (query_arch_spec _ vs f a WF Hn HR), IH by (intros x Hx; apply Hsub; right; exact Hx).
    rewrite query_spec_app. reflexivity. }
  apply G. auto.
Qed.

(** * size_hint brackets what is left *)
Theorem size_hint_brackets vs f cur rest :
  let '(low, high) := size_hint cur rest in
  low <= remaining vs f cur rest /\ match high with Some h => remaining vs f cur rest <= h | None => True end.
Proof.
  unfold size_hint, remaining. destruct rest as [|p rest]; cbn [fold_right].
  - split; lia.
  - split; [lia|exact I].
Qed.

(** * Single-entity queries through [World::entry] *)
Theorem entry_query_spec w e vs f : Inv w -> wf_views (w_n w) vs ->
  entry_query w e vs f =
  Some (match absf w e with
        | Some cv => if matches cv vs f then Some (map (spec_item e cv) vs) else None
        | None => None
        end).
Proof.
  intros HI WF. unfold entry_query.
  destruct (get_loc w e) as [[sh r]|] eqn:Eg.
  - destruct (rf_get_loc_R w e sh r HI Eg) as [vals HR].
    destruct (rf_R_slot w sh e vals HI HR) as (a & r' & Hf & Hrow & Hslot).
    pose proof (rf_get_loc_slot w e sh r Eg) as Hslot2. rewrite Hslot in Hslot2.
    inversion Hslot2; subst r'. clear Hslot2.
    rewrite (rf_absf_R w e sh vals HI HR).
    pose proof (find_arch_In _ _ Hf) as Hin. pose proof (find_arch_shape _ _ Hf) as Hsh.
    destruct (inv_shapes HI a Hin) as [Hn Hlen].
    assert (HL : length vals = count_true sh).
    { rewrite <- Hsh. apply (Hlen (e, vals)). eapply nth_error_In. exact Hrow. }
    unfold matches. rewrite (present_row_abs sh vals HL).
    destruct (filter_eval (query_filter vs f) sh) eqn:EF; [|reflexivity].
    rewrite Hf, Hrow.
    rewrite (view_row_spec (w_n w) sh vs f e vals WF (eq_trans (f_equal (@length bool) (eq_sym Hsh)) Hn) HL EF).
    reflexivity.
  - rewrite (rf_get_loc_none_absf w e HI Eg). reflexivity.
Qed.
