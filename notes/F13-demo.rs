// C06 / C16: after a component's `Drop` panicked inside `World::clear()` (and the panic was
// caught), the world is memory-safe but `World::len()` is stale: `clear` resets `self.len` only
// after all archetypes were cleared, and the unwinding skips that line. The entities of the
// archetypes that were already cleared (and of the one being cleared) are gone, yet `len()`
// keeps reporting the old count forever. Because `len` takes part in `PartialEq` but is
// recomputed by `Deserialize`, such a world no longer compares equal to its own serde round trip
// (in either encoding).
//
// Only safe public API is used. Exits 0 / prints PASS if the property held.

use brood::{
    entity,
    query::{filter, Views},
    Query, Registry, World,
};
use serde::{Deserialize, Serialize};
use std::{
    panic::{catch_unwind, AssertUnwindSafe},
    sync::atomic::{AtomicBool, Ordering},
};

static ARMED: AtomicBool = AtomicBool::new(false);

#[derive(Clone, Debug, PartialEq, Serialize, Deserialize)]
struct A(u32);

#[derive(Clone, Debug, PartialEq, Serialize, Deserialize)]
struct Bomb(u8);

impl Drop for Bomb {
    fn drop(&mut self) {
        // Panics exactly once, while armed.
        if ARMED.swap(false, Ordering::SeqCst) {
            panic!("Bomb::drop panics (user code)");
        }
    }
}

type W = World<Registry!(A, Bomb)>;

fn entities(world: &mut W) -> usize {
    world
        .query(Query::<Views!(entity::Identifier), filter::None>::new())
        .iter
        .count()
}

fn compact_round_trip(world: &W) -> W {
    use serde_assert::{Deserializer, Serializer};
    let serializer = Serializer::builder().is_human_readable(false).build();
    let tokens = world.serialize(&serializer).expect("serialize");
    let mut deserializer = Deserializer::builder()
        .tokens(tokens)
        .is_human_readable(false)
        .build();
    W::deserialize(&mut deserializer).expect("deserialize")
}

fn main() {
    let mut world = W::new();
    for i in 0..3 {
        world.insert(entity!(A(i)));
    }
    for i in 0..2 {
        world.insert(entity!(Bomb(i)));
    }
    world.insert(entity!(A(9), Bomb(9)));
    assert_eq!(world.len(), 6);
    assert_eq!(entities(&mut world), 6);

    ARMED.store(true, Ordering::SeqCst);
    let result = catch_unwind(AssertUnwindSafe(|| world.clear()));
    assert!(result.is_err(), "the panic must reach the caller");

    // The panic reached the caller; the world is used through safe API only.
    let mut violations = vec![];

    let len = world.len();
    let found = entities(&mut world);
    if len != found {
        violations.push(format!(
            "World::len() reports {len} entities, a query over all entities finds {found}"
        ));
    }
    if world.is_empty() != (found == 0) {
        violations.push(format!("World::is_empty() is {} with {found} entities", world.is_empty()));
    }

    let json: W = serde_json::from_str(&serde_json::to_string(&world).expect("serialize"))
        .expect("deserialize");
    if json != world {
        violations.push(format!(
            "human-readable round trip is not equal to the original (len {} vs {})",
            json.len(),
            world.len()
        ));
    }
    let compact = compact_round_trip(&world);
    if compact != world {
        violations.push(format!(
            "compact round trip is not equal to the original (len {} vs {})",
            compact.len(),
            world.len()
        ));
    }

    if violations.is_empty() {
        println!("PASS");
    } else {
        for violation in &violations {
            eprintln!("VIOLATION: {violation}");
        }
        eprintln!("FAIL: {} violation(s) after a Drop panic in World::clear", violations.len());
        std::process::exit(1);
    }
}
