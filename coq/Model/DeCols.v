(** Column-wise (compact) deserialization of one archetype table at the cell level
    ([archetype/impl_serde.rs] DeserializeColumns / DeserializeColumn and
    [registry/serde/de/sealed.rs] deserialize_components_by_column): each column is a tuple of
    the declared length; its visitor pushes one value per element into a [Vec] and returns it;
    the caller turns the columns it has received into raw parts and, when a later column fails,
    releases the columns received so far.

    A deserializer may report an error AFTER the visitor has returned — self-delimiting formats do
    when the encoded tuple holds more elements than were declared.  Whether the finished column
    then still has an owner depends on what the visitor hands back: a [Vec] (dropped with the
    error) or its raw parts (plain data: the values are never dropped) — read off the source,
    [fact_de_column_returns_owned_vec].  Definitions only. *)
From Brood Require Export DeRows.

(** the elements of one column: [Some v] deserializes to [v], [None] does not *)
Fixpoint de_col_elems (n : nat) (toks : list (option val)) (acc : list val) : option (list val * list (option val)) * list dev :=
  match n with
  | 0 => (Some (acc, toks), [])
  | S n' =>
      match toks with
      | Some v :: toks' =>
          let '(r, evs) := de_col_elems n' toks' (acc ++ [v]) in (r, Made v :: evs)
      | _ => (None, map Gone acc)          (* ill-typed or missing element: the Vec built so far is dropped *)
      end
  end.

Definition de_col (owned : bool) (len : nat) (toks : list (option val)) : option (list val) * list dev :=
  match de_col_elems len toks [] with
  | (Some (col, []), evs) => (Some col, evs)
  | (Some (col, _ :: _), evs) =>          (* trailing elements: the error comes after the visitor returned *)
      (None, evs ++ (if owned then map Gone col else []))
  | (None, evs) => (None, evs)
  end.

(** the columns of one table, left to right; [got] are the columns received so far *)
Fixpoint de_cols (owned : bool) (len : nat) (ncols : nat) (cols : list (list (option val))) (got : list (list val))
  : option (list (list val)) * list dev :=
  match ncols with
  | 0 => (Some got, [])
  | S k =>
      match cols with
      | [] => (None, free_evs len got)     (* a column is missing *)
      | toks :: cols' =>
          match de_col owned len toks with
          | (Some col, evs) => let '(r, evs') := de_cols owned len k cols' (got ++ [col]) in (r, evs ++ evs')
          | (None, evs) => (None, evs ++ free_evs len got)
          end
      end
  end.

Definition de_ctable (owned : bool) (ncols len : nat) (cols : list (list (option val))) :=
  de_cols owned len ncols cols [].

Definition de_ctable_src (ncols len : nat) (cols : list (list (option val))) :=
  de_ctable fact_de_column_returns_owned_vec ncols len cols.
