#!/usr/bin/env python3
"""Translator for query-time `Entries` sub-views (src/query/view/subset.rs): regenerates
coq/Gen/Subset.v from /repo's current source.

For every `impl SubViewable<'a, SUB, index::Index> for (SUPER, Views)` the pair of view
kinds and HOW the sub-view is obtained from the slot the super-view left behind:
  assume_init()                                   -> OpAssumeInit   (UB on an uninitialised slot)
  unwrap_unchecked()                              -> OpUnwrap       (UB on None)
  if identifier.get_unchecked(indices.0) { Some(views.0.assume_init()) } else { None } -> OpCondInit
  views.0 handed on (possibly re-borrowed)        -> OpPass
A pair without an impl is a compile error (no row)."""
import json
import os
import re
import sys

sys.path.insert(0, os.path.dirname(os.path.abspath(__file__)))
from translate import ParseFailure, read  # noqa: E402

KINDS = {"&'aComponent": "KRef", "&'amutComponent": "KMut", "Option<&'aComponent>": "KOptRef",
         "Option<&'amutComponent>": "KOptMut", "entity::Identifier": "ID"}


def norm(s):
    return re.sub(r"\s+", "", re.sub(r"//[^\n]*", "", s))


def translate():
    src = read("src/query/view/subset.rs")
    cut = src.find("#[cfg(test)]")
    if cut > 0:
        src = src[:cut]
    rows = {}
    ident = None
    for m in re.finditer(r"impl<'a,\s*(?:Component,\s*)?Views>\s*SubViewable<'a,\s*(.*?),\s*index::Index>\s*for\s*\(\s*(.*?),\s*Views\)", src, re.S):
        sub, sup = norm(m.group(1)), norm(m.group(2))
        if sub not in KINDS or sup not in KINDS:
            raise ParseFailure("subset.rs: unknown view kinds %s / %s" % (sub, sup))
        # body of `unsafe fn view`
        i = src.find("unsafe fn view", m.end())
        j = src.find("{", src.find("Registry: registry::Registry,", i))
        d, k = 1, j + 1
        while d and k < len(src):
            d += {"{": 1, "}": -1}.get(src[k], 0)
            k += 1
        body = norm(src[j:k])
        first = body[1:body.find(",(views.1,indices.1)")] if ",(views.1,indices.1)" in body else None
        if first is None:
            raise ParseFailure("subset.rs: %s from %s: remainder is not (views.1, indices.1)" % (sub, sup))
        first = first.lstrip("(")
        if re.fullmatch(r"unsafe\{ifidentifier\.get_unchecked\(indices\.0\)\{Some\(views\.0\.assume_init\(\)\)\}else\{None\}\}", first):
            op = "OpCondInit"
        elif re.fullmatch(r"unsafe\{views\.0\.assume_init\(\)\}", first):
            op = "OpAssumeInit"
        elif re.fullmatch(r"unsafe\{views\.0\.unwrap_unchecked\(\)\}", first):
            op = "OpUnwrap"
        elif re.fullmatch(r"unsafe\{mem::transmute\(views\.0\)\}", first):
            op = "OpPass"      # Option<&mut C> as Option<&C>: same slot, shared
        elif re.fullmatch(r"views\.0(\.map\(\|\w+\|&\*\w+\)|\.as_deref\(\))?", first) or re.fullmatch(r"matchviews\.0\{Some\((\w+)\)=>Some\(\1\),None=>None,?\}", first):
            op = "OpPass"
        else:
            raise ParseFailure("subset.rs: %s from %s: unrecognised extraction %r" % (sub, sup, first[:120]))
        if sub == "entity::Identifier" or sup == "entity::Identifier":
            if not (sub == sup and op == "OpPass"):
                raise ParseFailure("subset.rs: identifier sub-view is not a pass-through")
            ident = True
            continue
        rows[(KINDS[sub], KINDS[sup])] = op
    if not rows:
        raise ParseFailure("subset.rs: no SubViewable impl found")
    return rows, bool(ident)


FITEMS = {"Has<Component>": "IHas", "&'aComponent": "IRef", "&'amutComponent": "IMut", "Option<&'aComponent>": "IOptRef",
          "Option<&'amutComponent>": "IOptMut"}


def translate_filter():
    """src/query/view/contains/filter.rs: how an item of And<Filter, SubViews> is decided against the declared entry views:
    (item, kind of the entry view of that component or None when the impl is for any Views) -> tests the identifier bit?"""
    from translate import impl_blocks
    src = read("src/query/view/contains/filter.rs")
    cut = src.find("#[cfg(test)]")
    if cut > 0:
        src = src[:cut]
    rows = {}
    for h, b in impl_blocks(src):
        hn = norm(h)
        m = re.match(r"impl<'a,Component,Views>Sealed<'a,(.+?),index::Index>for(?:\((.+?),Views\)|Views)where", hn)
        if not m:
            continue
        item, sup = m.group(1), m.group(2)
        if item not in FITEMS or (sup is not None and sup not in KINDS):
            raise ParseFailure("contains/filter.rs: unknown item/view %s / %s" % (item, sup))
        bn = norm(b)
        k = bn.find("whereRegistry:registry::Registry,")
        body = bn[k + len("whereRegistry:registry::Registry,"):] if k >= 0 else bn
        if body.startswith("{letindex=indices.0;unsafe{identifier.get_unchecked(index)}}"):
            op = True
        elif body.startswith("{true}"):
            op = False
        else:
            raise ParseFailure("contains/filter.rs: %s over %s: unrecognised body %r" % (item, sup, body[:100]))
        rows[(FITEMS[item], KINDS[sup] if sup else None)] = op
    if not rows:
        raise ParseFailure("contains/filter.rs: no impl found")
    conn = norm(src)
    connectives = ("<ViewsasSealed<'a,FilterA,IndexA>>::filter(indices,identifier)&&<ViewsasSealed<'a,FilterB,IndexB>>::filter(indices,identifier)" in conn
                   and "<ViewsasSealed<'a,FilterA,IndexA>>::filter(indices,identifier)||<ViewsasSealed<'a,FilterB,IndexB>>::filter(indices,identifier)" in conn
                   and "!unsafe{Views::filter(indices,identifier)}" in conn)
    return rows, connectives


def emit(rows, ident):
    o = ["(** @generated by tools/translate_subset.py from /repo/src/query/view/subset.rs — do not edit.",
         "    How a sub-view of kind [sub] is obtained from the slot a super-view of kind [sup] left behind;",
         "    [None]: there is no impl (the program does not compile). *)",
         "From Brood Require Import Kinds.", "",
         "Inductive sub_op := OpAssumeInit | OpUnwrap | OpCondInit | OpPass.", "",
         "Definition subset_table (sub sup : vkind) : option sub_op :=", "  match sub, sup with"]
    for (a, b), op in sorted(rows.items()):
        o.append("  | %s, %s => Some %s" % (a, b, op))
    o.append("  | _, _ => None")
    o.append("  end.")
    o.append("Definition subset_identifier_passes : bool := %s." % ("true" if ident else "false"))
    frows, conn = translate_filter()
    o += ["", "(** query/view/contains/filter.rs: an item of [And<Filter, SubViews>] against the entry view of its component",
          "    ([None]: the impl is for any views): [Some true] = the identifier bit is tested, [Some false] = constant true,",
          "    [None] = no impl. *)",
          "Inductive fitem := IHas | IRef | IMut | IOptRef | IOptMut.", "",
          "Definition sub_filter_table (it : fitem) (sup : option vkind) : option bool :=", "  match it, sup with"]
    for (it, sup), op in sorted(frows.items(), key=lambda kv: (kv[0][0], str(kv[0][1]))):
        if sup is None:
            o.append("  | %s, _ => Some %s" % (it, "true" if op else "false"))
        else:
            o.append("  | %s, Some %s => Some %s" % (it, sup, "true" if op else "false"))
    o.append("  | _, _ => None")
    o.append("  end.")
    o.append("Definition sub_filter_connectives_boolean : bool := %s." % ("true" if conn else "false"))
    return "\n".join(o) + "\n"


def main():
    out = sys.argv[1]
    try:
        text = emit(*translate())
    except ParseFailure as e:
        print("PARSE-FAILED " + json.dumps(str(e)))
        sys.exit(3)
    except Exception as e:  # noqa: BLE001
        print("PARSE-FAILED " + json.dumps("internal: %r" % e))
        sys.exit(3)
    old = open(out).read() if os.path.exists(out) else None
    if old != text:
        with open(out, "w") as fh:
            fh.write(text)
        print("regenerated-changed")
    else:
        print("regenerated-identical")


if __name__ == "__main__":
    main()
