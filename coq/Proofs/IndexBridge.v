(** Bridge between the logical layer and the index-level model of [Model/CloneFromW.v]: the identifier index of
    every world satisfying [Inv] (hence of every reachable world, [Proofs/StepInv.v]) satisfies [WInv], so the
    statements about the state a caught panic leaves behind apply to every reachable world. *)
From Brood Require Import Base World BaseFacts Inv CloneFromW CloneFromWFacts.

(** position of the archetype of shape [sh] in the table (the index-level model names archetypes by position) *)
Fixpoint shape_index (sh : shape) (archs : list arch) : nat :=
  match archs with
  | [] => 0
  | a :: t => if shape_eqb (a_shape a) sh then 0 else S (shape_index sh t)
  end.

Definition pw_of (w : world) : pworld :=
  mkPW (map (fun a => map (fun rw : row => fst (fst rw)) (a_rows a)) (w_archs w))
       (map (fun s => match s_loc s with
                      | Some (sh, r) => Some (shape_index sh (w_archs w), r)
                      | None => None
                      end) (w_slots w)).

Lemma find_arch_index sh archs a : find_arch sh archs = Some a -> nth_error archs (shape_index sh archs) = Some a.
Proof.
  unfold find_arch. induction archs as [|b t IH]; cbn; [discriminate|].
  destruct (shape_eqb (a_shape b) sh); [intros H; inversion H; reflexivity|exact IH].
Qed.

Lemma index_of_own_shape archs : NoDup (map a_shape archs) -> forall k a, nth_error archs k = Some a ->
  shape_index (a_shape a) archs = k.
Proof.
  induction archs as [|b t IH]; intros ND k a H; [destruct k; discriminate|].
  inversion ND as [|? ? Hnin ND']; subst. destruct k as [|k]; cbn in *.
  - inversion H; subst. rewrite (proj2 (shape_eqb_eq _ _) eq_refl). reflexivity.
  - destruct (shape_eqb (a_shape b) (a_shape a)) eqn:E.
    + apply shape_eqb_eq in E. exfalso. apply Hnin. rewrite E. apply in_map. eapply nth_error_In. exact H.
    + f_equal. apply IH; assumption.
Qed.

Theorem Inv_WInv w : Inv w -> WInv (pw_of w).
Proof.
  intros HI. split.
  - intros i a r H. unfold pw_of in H. cbn [pw_slots] in H.
    destruct (nth_error (w_slots w) i) as [[g loc]|] eqn:Es.
    2:{ rewrite nth_error_map, Es in H. discriminate. }
    rewrite nth_error_map, Es in H. cbn in H. destruct loc as [[sh r']|]; [|discriminate].
    inversion H; subst a r'. clear H.
    destruct (inv_fwd HI _ Es) as (ar & vals & Hf & Hr).
    unfold row_of, pw_of. cbn [pw_archs]. rewrite nth_error_map, (@find_arch_index _ _ _ Hf). cbn.
    rewrite nth_error_map, Hr. reflexivity.
  - intros a r i H. unfold row_of, pw_of in H. cbn [pw_archs] in H.
    rewrite nth_error_map in H. destruct (nth_error (w_archs w) a) as [ar|] eqn:Ea; [|discriminate]. cbn in H.
    rewrite nth_error_map in H. destruct (nth_error (a_rows ar) r) as [[[i' g] vals]|] eqn:Er; [|discriminate].
    cbn in H. inversion H; subst i'. clear H.
    assert (Hf : find_arch (a_shape ar) (w_archs w) = Some ar).
    { apply In_find_arch; [exact (inv_nodup HI)|eapply nth_error_In; exact Ea]. }
    pose proof (inv_bwd HI _ _ Hf Er) as Hs.
    unfold pw_of. cbn [pw_slots]. rewrite nth_error_map, Hs. cbn.
    rewrite (@index_of_own_shape _ (inv_nodup HI) a _ Ea). reflexivity.
Qed.

(** * [World::remove] of the logical layer is the removal of the index-level model *)
Definition row_ids (a : arch) : list nat := map (fun rw : row => fst (fst rw)) (a_rows a).

Lemma map_swap_remove {A B} (f : A -> B) r (l : list A) : r < length l ->
  map f (swap_remove r l) = swap_remove r (map f l).
Proof.
  intros Hr. apply list_ext_nth_error. intros k.
  rewrite nth_error_map, (@nth_error_swap_remove _ r k l Hr).
  rewrite (@nth_error_swap_remove _ r k (map f l)) by (rewrite map_length; exact Hr).
  rewrite map_length, !nth_error_map.
  destruct (Nat.ltb k (length l - 1)); [|reflexivity]. destruct (Nat.eqb k r); reflexivity.
Qed.

Lemma shape_index_same_shapes sh archs archs' : map a_shape archs' = map a_shape archs ->
  shape_index sh archs' = shape_index sh archs.
Proof.
  revert archs'. induction archs as [|a t IH]; intros [|b t'] H; cbn in *; try discriminate; [reflexivity|].
  inversion H as [[H0 H1]]. rewrite H0. destruct (shape_eqb (a_shape a) sh); [reflexivity|]. f_equal. apply IH. exact H1.
Qed.

Lemma upd_arch_shapes sh f archs : map a_shape (upd_arch sh f archs) = map a_shape archs.
Proof.
  unfold upd_arch. rewrite map_map. apply map_ext. intros a. destruct (shape_eqb (a_shape a) sh); reflexivity.
Qed.

Lemma map_upd_arch (g : arch -> list nat) sh f archs a :
  NoDup (map a_shape archs) -> find_arch sh archs = Some a ->
  (forall b, a_shape b = sh -> g (mkArch (a_shape b) (f (a_rows b))) = g (mkArch sh (f (a_rows b)))) ->
  map g (upd_arch sh f archs) = upd (shape_index sh archs) (fun _ => g (mkArch sh (f (a_rows a)))) (map g archs).
Proof.
  intros ND Hf Hg. unfold upd_arch, find_arch in *. induction archs as [|b t IH]; [discriminate|].
  inversion ND as [|? ? Hnin ND']; subst. cbn [map find shape_index] in *.
  destruct (shape_eqb (a_shape b) sh) eqn:E.
  - inversion Hf; subst a. cbn [upd]. f_equal.
    + apply shape_eqb_eq in E. rewrite Hg by exact E. reflexivity.
    + rewrite map_map. apply map_ext_in. intros c Hc.
      destruct (shape_eqb (a_shape c) sh) eqn:E'; [|reflexivity].
      exfalso. apply Hnin. apply shape_eqb_eq in E, E'. rewrite E, <- E'. apply in_map. exact Hc.
  - cbn [upd]. f_equal. apply IH; assumption.
Qed.

Lemma map_upd_at {A B} (h : A -> B) (f : A -> A) i (l : list A) x : nth_error l i = Some x ->
  map h (upd i f l) = upd i (fun _ => h (f x)) (map h l).
Proof.
  revert i. induction l as [|y t IH]; intros [|i] H; cbn in *; try discriminate.
  - inversion H; subst. reflexivity.
  - f_equal. apply IH. exact H.
Qed.

Definition loc_of (archs : list arch) (s : slot) : option (nat * nat) :=
  match s_loc s with Some (sh, r) => Some (shape_index sh archs, r) | None => None end.

Lemma pw_of_unfold w : pw_of w = mkPW (map row_ids (w_archs w)) (map (loc_of (w_archs w)) (w_slots w)).
Proof. reflexivity. Qed.

Lemma loc_of_same_shapes archs archs' : map a_shape archs' = map a_shape archs -> forall s, loc_of archs' s = loc_of archs s.
Proof.
  intros H s. unfold loc_of. destruct (s_loc s) as [[sh r]|]; [|reflexivity].
  rewrite (shape_index_same_shapes sh archs archs' H). reflexivity.
Qed.

Theorem remove_simulates w e sh r w' o evs : Inv w -> get_loc w e = Some (sh, r) ->
  do_remove w e = Some (w', o, evs) ->
  pw_of w' = pw_free (pw_remove_rows (pw_of w) (shape_index sh (w_archs w)) r) (fst e).
Proof.
  intros HI Hloc H. unfold do_remove in H. rewrite Hloc in H. unfold take_row in H.
  destruct (find_arch sh (w_archs w)) as [a|] eqn:Hf; cbn [obind] in H; [|discriminate].
  destruct (nth_error (a_rows a) r) as [rw|] eqn:Er; cbn [obind] in H; [|discriminate].
  unfold last_opt in H.
  destruct (nth_error (a_rows a) (length (a_rows a) - 1)) as [lastrow|] eqn:El; cbn [obind] in H; [|discriminate].
  assert (Hr : r < length (a_rows a)) by (apply nth_error_Some; congruence).
  set (A := shape_index sh (w_archs w)).
  assert (HA : nth_error (map row_ids (w_archs w)) A = Some (row_ids a)).
  { unfold A. rewrite nth_error_map, (@find_arch_index _ _ _ Hf). reflexivity. }
  assert (Lids : length (row_ids a) = length (a_rows a)) by (unfold row_ids; apply map_length).
  assert (Elast : nth_error (row_ids a) (length (row_ids a) - 1) = Some (fst (fst lastrow))).
  { rewrite Lids. unfold row_ids. rewrite nth_error_map, El. reflexivity. }
  (* the slot of the row that is moved into the hole *)
  destruct lastrow as [[lid lg] lvals]. cbn [fst] in *.
  pose proof (inv_bwd HI _ _ Hf El) as Hls.
  (* the archetypes *)
  assert (Harchs : map row_ids (upd_arch sh (swap_remove r) (w_archs w)) =
                   upd A (fun _ => swap_remove r (row_ids a)) (map row_ids (w_archs w))).
  { rewrite (@map_upd_arch row_ids sh (swap_remove r) (w_archs w) a (inv_nodup HI) Hf) by reflexivity.
    assert (E : row_ids (mkArch sh (swap_remove r (a_rows a))) = swap_remove r (row_ids a)).
    { unfold row_ids. cbn [a_rows]. apply map_swap_remove. exact Hr. }
    rewrite E. reflexivity. }
  assert (Hshapes : map a_shape (upd_arch sh (swap_remove r) (w_archs w)) = map a_shape (w_archs w))
    by apply upd_arch_shapes.
  unfold pw_remove_rows, pw_free. rewrite (pw_of_unfold w). cbn [pw_archs pw_slots]. rewrite HA, Elast, Lids.
  destruct (Nat.ltb r (length (a_rows a) - 1)) eqn:Hlt.
  - unfold set_loc_index in H. rewrite Hls in H. cbn [obind s_loc s_gen] in H.
    unfold free_slot in H.
    destruct (nth_error (upd lid (fun s => mkSlot (s_gen s) (Some (sh, r))) (w_slots w)) (fst e)) as [s|] eqn:Es;
      cbn [obind] in H; [|discriminate].
    inversion H; subst w' o evs. clear H. rewrite pw_of_unfold. unfold with_store. cbn [w_archs w_slots].
    rewrite Harchs. f_equal.
    rewrite (map_ext _ _ (loc_of_same_shapes (w_archs w) _ Hshapes)).
    rewrite (map_upd_at _ _ (fst e) _ s Es). cbn [loc_of s_loc].
    rewrite (map_upd_at _ _ lid (w_slots w) _ Hls). cbn [loc_of s_loc s_gen]. reflexivity.
  - cbn [obind] in H. unfold free_slot in H.
    destruct (nth_error (w_slots w) (fst e)) as [s|] eqn:Es; cbn [obind] in H; [|discriminate].
    inversion H; subst w' o evs. clear H. rewrite pw_of_unfold. unfold with_store. cbn [w_archs w_slots].
    rewrite Harchs. f_equal.
    rewrite (map_ext _ _ (loc_of_same_shapes (w_archs w) _ Hshapes)).
    rewrite (map_upd_at _ _ (fst e) _ s Es). cbn [loc_of s_loc]. reflexivity.
Qed.

(** releasing the slot before or after the row is removed gives the same state when nothing interrupts *)
Lemma free_remove_commute w i a r : WInv w -> nth_error (pw_slots w) i = Some (Some (a, r)) ->
  pw_free (pw_remove_rows w a r) i = pw_remove_rows (pw_free w i) a r.
Proof.
  intros [H1 H2] Hi. destruct w as [archs slots]. cbn [pw_slots pw_archs] in *.
  pose proof (H1 i a r Hi) as Hrow. unfold row_of in Hrow. cbn [pw_archs] in Hrow.
  destruct (nth_error archs a) as [rows|] eqn:Ea; [|discriminate].
  unfold pw_remove_rows, pw_free. cbn [pw_archs pw_slots]. rewrite Ea. cbn [pw_archs pw_slots].
  f_equal.
  destruct (nth_error rows (length rows - 1)) as [z|] eqn:Ez; [|reflexivity].
  destruct (Nat.ltb_spec r (length rows - 1)) as [Hlt|Hge]; [|reflexivity].
  assert (z <> i).
  { intros ->.
    assert (A1 : nth_error slots i = Some (Some (a, length rows - 1))) by (apply H2; unfold row_of; cbn [pw_archs]; rewrite Ea; exact Ez).
    rewrite Hi in A1. inversion A1. lia. }
  apply list_ext_nth_error. intros k. rewrite !nth_error_upd.
  destruct (Nat.eqb k i) eqn:E1, (Nat.eqb k z) eqn:E2; try reflexivity.
  apply Nat.eqb_eq in E1, E2. subst. contradiction.
Qed.

(** what [get_loc] answers is what the index says *)
Lemma get_loc_slot w e sh r : get_loc w e = Some (sh, r) ->
  nth_error (pw_slots (pw_of w)) (fst e) = Some (Some (shape_index sh (w_archs w), r)).
Proof.
  unfold get_loc. intros H. destruct (nth_error (w_slots w) (fst e)) as [s|] eqn:Es; [|discriminate].
  destruct (N.eqb (s_gen s) (snd e)); [|discriminate].
  unfold pw_of. cbn [pw_slots]. rewrite nth_error_map, Es. cbn. rewrite H. reflexivity.
Qed.

(** * [World::remove] of the logical layer — the one the extracted model runs against the real library — is
      [pw_remove] of the index-level model, for every world satisfying [Inv] *)
Theorem remove_is_pw_remove w e sh r w' o evs : Inv w -> get_loc w e = Some (sh, r) ->
  do_remove w e = Some (w', o, evs) ->
  pw_of w' = pw_remove (pw_of w) (fst e) (shape_index sh (w_archs w)) r false.
Proof.
  intros HI Hloc H. rewrite (@remove_simulates w e sh r w' o evs HI Hloc H).
  unfold pw_remove, pw_remove_gen. rewrite remove_fact.
  apply free_remove_commute; [exact (@Inv_WInv w HI)|exact (@get_loc_slot w e sh r Hloc)].
Qed.
