(** C08 / C07: the claims the scheduler keeps cover everything a task may touch according to its
    declared views — the archetypes its entry views can reach included.  Finite facts about the
    regenerated tables (Gen/Tables.v) are used and re-checked here. *)
From Brood Require Import Base Kinds Tables Sched SchedSpec BaseFacts SchedFacts.

Lemma view_filter_declared v s :
  view_filter v s = match v with VComp k c => is_opt_kind k || get_bit c s | VIdent => true end.
Proof. destruct v as [k c|]; [|reflexivity]. destruct k; cbn; try reflexivity; destruct (get_bit c s); reflexivity. Qed.

Lemma entry_filter_all k : entry_filter_table k = true.
Proof. destruct k; reflexivity. Qed.

Lemma mode_le_claim k : claim_le (mode_of k) (view_claim_table k) = true.
Proof. destruct k; reflexivity. Qed.

Lemma claim_max_le a b x : claim_le a x = true -> claim_le b x = true -> claim_le (claim_max a b) x = true.
Proof. destruct a, b, x; cbn; intros; try reflexivity; discriminate. Qed.

Lemma claim_conflict_mono a a' b b' : claim_le a a' = true -> claim_le b b' = true ->
  claim_conflict a' b' = false -> claim_conflict a b = false.
Proof. destruct a, a', b, b'; cbn; intros; try reflexivity; discriminate. Qed.

Lemma forallb_ext' {A} (f g : A -> bool) l : (forall x, f x = g x) -> forallb f l = forallb g l.
Proof. intros H. induction l as [|x t IH]; cbn; [reflexivity|]. rewrite H, IH. reflexivity. Qed.

Lemma declared_reaches t s : declared_match t s = true -> task_reaches t s = true.
Proof.
  unfold declared_match, task_reaches. intros H. apply andb_true_iff in H as [H1 H2].
  apply orb_true_iff. left. apply andb_true_iff. split; [|exact H2].
  rewrite <- H1. apply forallb_ext'. intros v. apply view_filter_declared.
Qed.

Lemma entry_reaches vs s c k : kind_of c vs = Some k -> get_bit c s = true -> entry_filter vs s = true.
Proof.
  unfold kind_of, entry_filter. induction vs as [|v t IH]; cbn [find fold_right]; [discriminate|].
  destruct v as [k' c'|].
  - destruct (Nat.eqb_spec c c') as [->|Hne].
    + intros _ Hb. rewrite entry_filter_all, Hb. apply orb_true_r.
    + intros H Hb. rewrite (IH H Hb). reflexivity.
  - intros H Hb. rewrite (IH H Hb). reflexivity.
Qed.

Lemma claims_le_nth : forall a b c, claims_le a b = true -> claim_le (nth c a CNone) (nth c b CNone) = true.
Proof.
  induction a as [|x a IH]; intros [|y b] c H; cbn in H; try discriminate; [destruct c; reflexivity|].
  apply andb_true_iff in H as [H1 H2]. destruct c as [|c]; cbn; [exact H1|apply IH; exact H2].
Qed.

Lemma nth_claim_of_views n vs c : c < n -> nth c (claim_of_views n vs) CNone = claim_of_kind (kind_of c vs).
Proof.
  intros H. rewrite claim_of_views_kind.
  rewrite (nth_indep _ CNone (claim_of_kind (kind_of 0 vs))) by (rewrite map_length, seq_length; exact H).
  rewrite (map_nth (fun c0 => claim_of_kind (kind_of c0 vs)) (seq 0 n) 0 c), seq_nth by exact H. reflexivity.
Qed.

Theorem may_access_covered n t s c cl : task_claims n t = Some cl -> c < n ->
  claim_le (may_access t s c) (access n t s c) = true.
Proof.
  intros HC Hc. unfold may_access, access. rewrite HC.
  unfold task_claims in HC. destruct (try_merge_le _ _ HC) as [L1 L2].
  apply claim_max_le.
  - destruct (declared_match t s) eqn:DM; [|reflexivity]. destruct (get_bit c s) eqn:GB; [|reflexivity]. cbn [andb].
    destruct (kind_of c (t_views t)) as [k|] eqn:K; [|reflexivity].
    rewrite (declared_reaches t s DM).
    eapply claim_le_trans; [apply mode_le_claim|].
    pose proof (claims_le_nth _ _ c L1) as N. rewrite (nth_claim_of_views n _ c Hc), K in N. exact N.
  - destruct (get_bit c s) eqn:GB; [|reflexivity].
    destruct (kind_of c (t_entry t)) as [k|] eqn:K; [|reflexivity].
    assert (R : task_reaches t s = true).
    { unfold task_reaches. rewrite (entry_reaches _ s c k K GB). apply orb_true_r. }
    rewrite R. eapply claim_le_trans; [apply mode_le_claim|].
    pose proof (claims_le_nth _ _ c L2) as N. rewrite (nth_claim_of_views n _ c Hc), K in N. exact N.
Qed.

(** tasks that the scheduler lets overlap share no write, in terms of what they DECLARE *)
Theorem no_shared_write_declared n nres archs ta tb ca cb :
  task_claims n ta = Some ca -> task_claims n tb = Some cb ->
  no_shared_write n nres archs ta tb ->
  forall s c, In s archs -> c < n -> claim_conflict (may_access ta s c) (may_access tb s c) = false.
Proof.
  intros Ha Hb [H _] s c Hs Hc.
  eapply claim_conflict_mono; [exact (may_access_covered n ta s c ca Ha Hc)|exact (may_access_covered n tb s c cb Hb Hc)|].
  exact (H s c Hs).
Qed.
