(** Row-wise (human-readable) deserialization of one archetype table at the cell level
    ([archetype/impl_serde.rs] DeserializeRows / DeserializeRow and
    [registry/serde/de/sealed.rs] deserialize_components_by_row): the columns are
    raw parts next to a row count [vec_len] kept by the caller; a row pushes one
    cell per column, left to right, through a recursion over the registry; the
    caller counts the row only when the row deserializer returns [Ok].  On an
    error the caller releases [vec_len] cells of every column.  Two things decide
    whether a value created for an incomplete row is ever dropped: whether the
    recursion pops what it pushed when the rest of the row fails ([pop]) and
    whether the caller knows that a row was stored completely although its
    deserializer reported an error afterwards — trailing tokens in the row
    ([flag]).  Both are read off the source (Gen/Facts.v).  Definitions only. *)
From Brood Require Export Base.
From Brood Require Export Facts.

Inductive dev := Made (v : val) | Gone (v : val).

Definition made (evs : list dev) : list val := flat_map (fun e => match e with Made v => [v] | Gone _ => [] end) evs.
Definition gone (evs : list dev) : list val := flat_map (fun e => match e with Gone v => [v] | Made _ => [] end) evs.

(** the cells of one row: [Some v] is a token that deserializes to the value [v], [None] one that does not;
    a missing token is an error as well; surplus tokens are left for the caller to notice *)
Fixpoint de_cells (pop : bool) (cols : list (list val)) (cells : list (option val))
  : list (list val) * bool * list dev :=
  match cols with
  | [] => ([], true, [])
  | col :: rest =>
      match cells with
      | Some v :: cells' =>
          let '(rest', ok, evs) := de_cells pop rest cells' in
          if ok then ((col ++ [v]) :: rest', true, Made v :: evs)
          else if pop then (col :: rest', false, Made v :: evs ++ [Gone v])
          else ((col ++ [v]) :: rest', false, Made v :: evs)
      | _ => (col :: rest, false, [])
      end
  end.

(** [R::free_components(&components, n, ..)]: the first [n] cells of every column *)
Definition free_evs (n : nat) (cols : list (list val)) : list dev :=
  flat_map (fun col => map Gone (firstn n col)) cols.

Fixpoint de_rows (pop flag : bool) (len : nat) (rows : list (list (option val))) (cols : list (list val)) (vec_len : nat)
  : option (list (list val)) * list dev :=
  match len with
  | 0 => (Some cols, [])
  | S len' =>
      match rows with
      | [] => (None, free_evs vec_len cols)
      | r :: rows' =>
          let '(cols', ok, evs) := de_cells pop cols r in
          if ok then
            if Nat.ltb (length cols) (length r)
            then (None, evs ++ free_evs (if flag then S vec_len else vec_len) cols')
            else let '(res, evs') := de_rows pop flag len' rows' cols' (S vec_len) in (res, evs ++ evs')
          else (None, evs ++ free_evs vec_len cols')
      end
  end.

Definition de_table (pop flag : bool) (ncols len : nat) (rows : list (list (option val))) :=
  de_rows pop flag len rows (repeat [] ncols) 0.

(** the table deserializer with what the source does *)
Definition de_table_src (ncols len : nat) (rows : list (list (option val))) :=
  de_table fact_de_row_pops fact_de_row_complete_flag ncols len rows.
