(** C18 — Run-time safety preconditions are enforced at the safe API boundary.
    Property theorems only; proofs are in Proofs/CtorFacts.v.  The control
    structure of the constructors is regenerated from the Rust source on every
    run (Gen/Facts.v, tools/translate_facts.py); Model/Ctor.v takes the unchecked
    path wherever a fact does not hold, so these theorems fail to type-check if
    any way of obtaining a World or a Batch stops going through its check. *)
From Brood Require Import Base Facts Ctor CtorFacts.

(** A world is obtained (new, with_resources, default, deserialization) exactly
    when the registry lists no component type twice; otherwise the call panics. *)
Theorem C18_world : forall k reg, construct k reg = Returned <-> NoDup reg.
Proof. exact construct_spec. Qed.
Check (C18_world : forall k reg, construct k reg = Returned <-> NoDup reg).
Print Assumptions C18_world.

Theorem C18_world_panics : forall k reg, ~ NoDup reg -> construct k reg = Panicked.
Proof.
  intros k reg H. destruct (construct k reg) eqn:E; [|reflexivity].
  exfalso. apply H. apply (proj1 (construct_spec k reg)). exact E.
Qed.
Check (C18_world_panics : forall k reg, ~ NoDup reg -> construct k reg = Panicked).
Print Assumptions C18_world_panics.

(** The set-insertion check is exactly duplicate-freeness (from any starting set). *)
Theorem C18_assert : forall tys seen,
  assert_no_dup tys seen = true <-> (NoDup tys /\ forall x, In x tys -> ~ In x seen).
Proof. exact assert_no_dup_spec. Qed.
Check (C18_assert : forall tys seen,
  assert_no_dup tys seen = true <-> (NoDup tys /\ forall x, In x tys -> ~ In x seen)).
Print Assumptions C18_assert.

(** A batch is built through the safe constructor only if all columns have one
    length (its len); ragged columns make it panic.  Any number of columns incl. 0. *)
Theorem C18_batch : forall cols, match batch_new cols with
  | Some l => (forall c, In c cols -> c = l) /\ l = component_len cols
  | None => exists a b, In a cols /\ In b cols /\ a <> b
  end.
Proof. exact batch_new_spec. Qed.
Check (C18_batch : forall cols, match batch_new cols with
  | Some l => (forall c, In c cols -> c = l) /\ l = component_len cols
  | None => exists a b, In a cols /\ In b cols /\ a <> b
  end).
Print Assumptions C18_batch.

(** The only other constructor of a Batch is `unsafe`, and nothing else builds one. *)
Theorem C18_batch_only_safe_ctor : batch_safe_ctor_unique = true.
Proof. reflexivity. Qed.
Check (C18_batch_only_safe_ctor : batch_safe_ctor_unique = true).
Print Assumptions C18_batch_only_safe_ctor.

(** The macro front: [entities!((c1, .., ck); n)] calls [new_unchecked] itself.  Whatever the size expression
    returns on successive evaluations, the columns have one length (finding F10 repaired: evaluated once —
    read off the source); before the repair a side-effecting size built ragged columns in safe code. *)
Theorem C18_entities_macro : forall k evals,
  check_len (macro_cloned k evals) = true /\ batch_new (macro_cloned k evals) = Some (component_len (macro_cloned k evals)).
Proof. intros k evals. split; [apply macro_cloned_rectangular|apply macro_cloned_is_a_batch]. Qed.
Check (C18_entities_macro : forall k evals,
  check_len (macro_cloned k evals) = true /\ batch_new (macro_cloned k evals) = Some (component_len (macro_cloned k evals))).
Print Assumptions C18_entities_macro.

Theorem C18_entities_macro_F10_before_the_repair : check_len (macro_cloned_cols false 2 [4; 1]) = false.
Proof. exact macro_cloned_ragged_before. Qed.

Theorem C18_safe_ways_to_a_batch : batch_safe_ctors_known = true.
Proof. reflexivity. Qed.
Print Assumptions C18_safe_ways_to_a_batch.

(** Non-vacuity. *)
Example C18_example :
  construct CDeserialize [3; 1; 4; 1] = Panicked /\ construct CDefault [3; 1; 4] = Returned /\
  batch_new [2; 2; 3] = None /\ batch_new [2; 2; 2] = Some 2 /\ batch_new [] = Some 0.
Proof. vm_compute. auto. Qed.
