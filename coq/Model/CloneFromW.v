(** [World::clone_from] across archetypes and the entity allocator ([world/impl_clone.rs],
    [archetypes/mod.rs] clone_from), at the level of what the unchecked code relies on: every
    identifier the allocator accepts points at a row holding it, and every stored row is known to the
    allocator.  (What happens inside one archetype is [CloneFromM.v].)

    The archetypes are overwritten one after the other; a panic of a component's [Clone] or [Drop]
    while archetype [k] is being processed leaves the archetypes before it holding the SOURCE's rows,
    archetype [k] empty (it holds no rows while its columns are replaced) and the ones after it
    untouched.  Two things are read off the source: whether the destination's old identifiers are
    forgotten BEFORE the archetypes are touched ([fact_world_clone_from_forgets_identifiers_first])
    and whether every archetype is emptied while the panic unwinds
    ([fact_world_clone_from_clears_on_unwind]).  Definitions only. *)
From Brood Require Export Base.
From Brood Require Export Facts.

Record pworld := mkPW {
  pw_archs : list (list nat);               (* per archetype: the identifier (index) of each row *)
  pw_slots : list (option (nat * nat))      (* per identifier index: Some (archetype, row) when active *)
}.

Definition row_of (w : pworld) (a r : nat) : option nat :=
  match nth_error (pw_archs w) a with Some rows => nth_error rows r | None => None end.

(** what [entry], [remove], [clear] and the swap-remove fix-up index with, unchecked *)
Definition WInv (w : pworld) : Prop :=
  (forall i a r, nth_error (pw_slots w) i = Some (Some (a, r)) -> row_of w a r = Some i) /\
  (forall a r i, row_of w a r = Some i -> nth_error (pw_slots w) i = Some (Some (a, r))).

(** the archetypes after a panic while archetype [k] was being processed *)
Fixpoint overwrite_until (k : nat) (dst src : list (list nat)) : list (list nat) :=
  match k, dst, src with
  | 0, _ :: dst', _ => [] :: dst'
  | 0, [], _ => []
  | S k', _ :: dst', s :: src' => s :: overwrite_until k' dst' src'
  | S k', [], s :: src' => s :: overwrite_until k' [] src'
  | S k', _ :: dst', [] => [] :: overwrite_until k' dst' []      (* destination-only archetype: cleared *)
  | S k', [], [] => []
  end.

Definition pw_clone_from_gen (forget_first guard : bool) (dst src : pworld) (fault : option nat) : pworld :=
  match fault with
  | None => src
  | Some k =>
      let archs := overwrite_until k (pw_archs dst) (pw_archs src) in
      mkPW (if guard then map (fun _ => []) archs else archs)
           (if forget_first then [] else pw_slots dst)
  end.

Definition pw_clone_from (dst src : pworld) (fault : option nat) : pworld :=
  pw_clone_from_gen fact_world_clone_from_forgets_identifiers_first fact_world_clone_from_clears_on_unwind dst src fault.

(** * [World::remove] under a panicking [Drop]
    Since the repair of F8a the archetype's own bookkeeping (identifier column swap-removed, the moved
    row's slot updated, length decremented) is complete before the first [Drop] runs.  What is left is
    whether [World::remove] releases the identifier before ([fact_remove_frees_identifier_first]) or
    after the row is removed: after, a panic leaves the identifier accepted, pointing at a row that is
    gone or that holds another entity. *)
Definition pw_remove_rows (w : pworld) (a r : nat) : pworld :=
  match nth_error (pw_archs w) a with
  | None => w
  | Some rows =>
      let slots := match nth_error rows (length rows - 1) with
                   | Some last => if Nat.ltb r (length rows - 1) then upd last (fun _ => Some (a, r)) (pw_slots w) else pw_slots w
                   | None => pw_slots w
                   end in
      mkPW (upd a (fun _ => swap_remove r rows) (pw_archs w)) slots
  end.

Definition pw_free (w : pworld) (i : nat) : pworld := mkPW (pw_archs w) (upd i (fun _ => None) (pw_slots w)).

(** the identifier [i] stored at [(a, r)] is removed; [panics]: a component's Drop panics *)
Definition pw_remove_gen (free_first : bool) (w : pworld) (i a r : nat) (panics : bool) : pworld :=
  if free_first then pw_remove_rows (pw_free w i) a r
  else if panics then pw_remove_rows w a r
  else pw_free (pw_remove_rows w a r) i.

Definition pw_remove (w : pworld) (i a r : nat) (panics : bool) : pworld :=
  pw_remove_gen fact_remove_frees_identifier_first w i a r panics.

(** a decidable rendering of [WInv] for closed examples *)
Definition winv_b (w : pworld) : bool :=
  forallb (fun i => match nth_error (pw_slots w) i with
                    | Some (Some (a, r)) => match row_of w a r with Some j => Nat.eqb i j | None => false end
                    | _ => true end) (seq 0 (length (pw_slots w))) &&
  forallb (fun a => match nth_error (pw_archs w) a with
                    | Some rows => forallb (fun r => match nth_error rows r with
                                                     | Some i => match nth_error (pw_slots w) i with
                                                                 | Some (Some (a', r')) => Nat.eqb a a' && Nat.eqb r r'
                                                                 | _ => false end
                                                     | None => true end) (seq 0 (length rows))
                    | None => true end) (seq 0 (length (pw_archs w))).

(** * [Entry::remove] under a panicking [Drop]
    The row is popped into a buffer, pushed into the archetype of the smaller shape and the entity's location
    is updated; the detached component is dropped from the buffer.  Whether that drop comes LAST is read off
    the source ([fact_entry_remove_drops_last], the repair of F2 put it there): dropped before the location
    update, a panic leaves the identifier pointing at the row's old place, which holds the entity that was
    moved into it, or nothing. *)
Definition pw_move_row (w : pworld) (i a r b : nat) : pworld :=
  let w1 := pw_remove_rows w a r in
  match nth_error (pw_archs w1) b with
  | None => w1
  | Some rows => mkPW (upd b (fun _ => rows ++ [i]) (pw_archs w1)) (upd i (fun _ => Some (b, length rows)) (pw_slots w1))
  end.

(** identifier [i] at [(a, r)] loses a component and moves to archetype [b]; [panics]: the component's Drop panics *)
Definition pw_entry_remove_gen (drops_last : bool) (w : pworld) (i a r b : nat) (panics : bool) : pworld :=
  if drops_last then pw_move_row w i a r b
  else if panics then
    (* popped and pushed, the location not yet updated *)
    let w1 := pw_remove_rows w a r in
    match nth_error (pw_archs w1) b with
    | None => w1
    | Some rows => mkPW (upd b (fun _ => rows ++ [i]) (pw_archs w1)) (pw_slots w1)
    end
  else pw_move_row w i a r b.

Definition pw_entry_remove (w : pworld) (i a r b : nat) (panics : bool) : pworld :=
  pw_entry_remove_gen fact_entry_remove_drops_last w i a r b panics.
