(** Queries ([query/result/iter.rs], [registry/sealed/view.rs],
    [registry/contains/filter/sealed.rs], [world/entry.rs]): which archetypes a
    query visits, which column each view reads, and how results are reshaped to
    the order the views were written in.  Filters are evaluated through the
    regenerated tables (Gen/Tables.v via Sched.filter_eval).  Definitions only. *)
From Brood Require Export World Kinds Tables Sched.

Set Implicit Arguments.

Fixpoint mapM {A B} (f : A -> option B) (l : list A) : option (list B) :=
  match l with
  | [] => Some []
  | x :: t => match f x, mapM f t with Some y, Some r => Some (y :: r) | _, _ => None end
  end.

(** One element of a result tuple. *)
Inductive qitem := QId (e : eid) | QVal (v : val) | QOpt (o : option val).

(** [CanonicalViews::view]: walk the registry (position [k]) alongside the
    identifier bits and the remaining columns.  A viewed component consumes
    column 0 — for a non-optional view *without looking at the bit* (the
    archetype filter is what makes that sound; here an unset bit is the
    distinguished UB outcome); an optional view and a component that is not
    viewed consume a column only if the bit is set. *)
Fixpoint walk (k : nat) (bits : shape) (cols : list val) (vs : list view) : option (list (nat * qitem)) :=
  match bits with
  | [] => Some []
  | b :: bs =>
      match kind_of k vs with
      | Some kd =>
          if is_opt_kind kd then
            if b then
              match cols with
              | c :: cs => match walk (S k) bs cs vs with Some r => Some ((k, QOpt (Some c)) :: r) | None => None end
              | [] => None
              end
            else match walk (S k) bs cols vs with Some r => Some ((k, QOpt None) :: r) | None => None end
          else
            match cols with
            | c :: cs =>
                if b then match walk (S k) bs cs vs with Some r => Some ((k, QVal c) :: r) | None => None end
                else None
            | [] => None
            end
      | None =>
          if b then match cols with _ :: cs => walk (S k) bs cs vs | [] => None end
          else walk (S k) bs cols vs
      end
  end.

(** [Reshape]: back to the order the views were written in. *)
Definition item_for (id : eid) (canon : list (nat * qitem)) (v : view) : option qitem :=
  match v with
  | VIdent => Some (QId id)
  | VComp _ c => match find (fun p => Nat.eqb (fst p) c) canon with Some p => Some (snd p) | None => None end
  end.

Definition view_row (sh : shape) (vs : list view) (rw : row) : option (list qitem) :=
  match walk 0 sh (snd rw) vs with
  | Some canon => mapM (item_for (fst rw) canon) vs
  | None => None
  end.

(** The filter a query runs with: [And<Views, Filter>]. *)
Definition query_filter (vs : list view) (f : qfilter) : qfilter := FAnd (FViews vs) f.

Definition query_arch (vs : list view) (f : qfilter) (a : arch) : option (list (list qitem)) :=
  if filter_eval (query_filter vs f) (a_shape a) then mapM (view_row (a_shape a) vs) (a_rows a) else Some [].

(** [World::query(..).iter]: archetypes in table order, rows in row order. *)
Fixpoint query_archs (vs : list view) (f : qfilter) (archs : list arch) : option (list (list qitem)) :=
  match archs with
  | [] => Some []
  | a :: t => match query_arch vs f a, query_archs vs f t with Some x, Some r => Some (x ++ r) | _, _ => None end
  end.

Definition query_impl (w : world) (vs : list view) (f : qfilter) : option (list (list qitem)) :=
  query_archs vs f (w_archs w).

(** [World::entry(e).query(..)]: the same filter and column walk on the one row. *)
Definition entry_query (w : world) (e : eid) (vs : list view) (f : qfilter) : option (option (list qitem)) :=
  match get_loc w e with
  | None => Some None
  | Some (sh, r) =>
      if filter_eval (query_filter vs f) sh then
        match find_arch sh (w_archs w) with
        | Some a => match nth_error (a_rows a) r with
                    | Some rw => match view_row sh vs rw with Some x => Some (Some x) | None => None end
                    | None => None
                    end
        | None => None
        end
      else Some None
  end.

(** * Specification: a comprehension over the map *)
Definition is_some {A} (o : option A) : bool := match o with Some _ => true | None => false end.
Definition present (cv : list (option val)) : shape := map (@is_some val) cv.

Definition spec_item (id : eid) (cv : list (option val)) (v : view) : qitem :=
  match v with
  | VIdent => QId id
  | VComp k c =>
      if is_opt_kind k then QOpt (nth c cv None)
      else match nth c cv None with Some x => QVal x | None => QVal 0%N end
  end.

Definition matches (cv : list (option val)) (vs : list view) (f : qfilter) : bool :=
  filter_eval (query_filter vs f) (present cv).

Definition query_spec (m : list (eid * list (option val))) (vs : list view) (f : qfilter) : list (list qitem) :=
  map (fun p => map (spec_item (fst p) (snd p)) vs) (filter (fun p => matches (snd p) vs f) m).

(** What [ContainsViews] demands of the views: components of the registry, each at most once. *)
Definition view_comps (vs : list view) : list nat :=
  flat_map (fun v => match v with VComp _ c => [c] | VIdent => [] end) vs.
Definition wf_views (n : nat) (vs : list view) : Prop :=
  NoDup (view_comps vs) /\ forall c, In c (view_comps vs) -> c < n.

(** * [Iterator::size_hint] of the result iterator ([query/result/iter.rs]) *)
(** State: what is left of the current archetype's results, and the archetypes
    not yet looked at (their shape and length). *)
Definition size_hint (cur : option nat) (rest : list (shape * nat)) : nat * option nat :=
  let low := match cur with Some k => k | None => 0 end in
  match rest with
  | [] => (low, Some low)
  | _ => (low, None)
  end.

Definition remaining (vs : list view) (f : qfilter) (cur : option nat) (rest : list (shape * nat)) : nat :=
  (match cur with Some k => k | None => 0 end) +
  fold_right (fun p acc => (if filter_eval (query_filter vs f) (fst p) then snd p else 0) + acc) 0 rest.
