(** The shape-changing path of [Entry::add] / [Entry::remove] at the byte level
    ([world/entry.rs], [archetype/mod.rs] pop_row_unchecked / push_from_buffer_...,
    [registry/sealed/storage.rs] pop_component_row / push_components_from_buffer_...):
    the row is moved through a packed byte buffer — the components present in the
    old archetype, in registry order, each [size_of::<C>()] bytes, unaligned — and
    the new archetype's identifier bytes are computed from the old ones.  The
    byte arithmetic is not written here: it is regenerated from the source
    (Gen/Bytes.v).  A byte of the buffer remembers whose it is; reading a [C] at
    an offset CHECKS that exactly the bytes of one [C] value lie there —
    otherwise the distinguished UB outcome [None] (a value of another type
    reinterpreted, a read past the buffer).  Definitions only. *)
From Brood Require Export Base.
From Brood Require Export Bytes.

(** ** Identifier bytes *)
Definition byte_bit' (b : N) (i : nat) : bool := N.testbit b (N.of_nat i).
Definition shape_of_bytes' (n : nat) (bytes : list N) : shape :=
  map (fun k => byte_bit' (nth (k / 8) bytes 0%N) (k mod 8)) (seq 0 n).

Definition mapi {A B} (f : nat -> A -> B) (l : list A) : list B :=
  map (fun p => f (fst p) (snd p)) (combine (seq 0 (length l)) l).

Definition add_bytes (c : nat) (bytes : list N) : list N :=
  upd (N.to_nat (entry_add_byte_index (N.of_nat c))) (entry_add_byte (N.of_nat c)) bytes.
Definition remove_bytes (c : nat) (bytes : list N) : list N :=
  upd (N.to_nat (entry_remove_byte_index (N.of_nat c))) (entry_remove_byte (N.of_nat c)) bytes.
Definition mask_bytes (c : nat) (bytes : list N) : list N :=
  mapi (fun index b => entry_remove_mask_byte (N.of_nat index) (N.of_nat c) b) bytes.

(** the components preceding [c] *)
Definition mask_shape (c : nat) (sh : shape) : shape := firstn c sh ++ repeat false (length sh - c).

(** ** The packed row buffer *)
Definition pbyte := (nat * val * nat)%type.           (* component, payload, position within the value *)
Definition size_of (sizes : list nat) (c : nat) : nat := nth c sizes 0.
Definition bytes_of (sizes : list nat) (c : nat) (v : val) : list pbyte :=
  map (fun k => (c, v, k)) (seq 0 (size_of sizes c)).

Fixpoint comps_from (i : nat) (sh : shape) : list nat :=
  match sh with
  | [] => []
  | b :: t => if b then i :: comps_from (S i) t else comps_from (S i) t
  end.

(** [pop_component_row]: the present components in registry order *)
Definition pack_from (sizes : list nat) (i : nat) (sh : shape) (row : list val) : list pbyte :=
  concat (map (fun p => bytes_of sizes (fst p) (snd p)) (combine (comps_from i sh) row)).
Definition pack (sizes : list nat) (sh : shape) (row : list val) : list pbyte := pack_from sizes 0 sh row.

(** [R::size_of_components_for_identifier] *)
Fixpoint size_from (sizes : list nat) (i : nat) (sh : shape) : nat :=
  match sh with
  | [] => 0
  | b :: t => (if b then size_of sizes i else 0) + size_from sizes (S i) t
  end.
Definition size_of_components (sizes : list nat) (sh : shape) : nat := size_from sizes 0 sh.

Definition pbyte_eqb (a b : pbyte) : bool :=
  Nat.eqb (fst (fst a)) (fst (fst b)) && N.eqb (snd (fst a)) (snd (fst b)) && Nat.eqb (snd a) (snd b).
Fixpoint pbytes_eqb (a b : list pbyte) : bool :=
  match a, b with
  | [], [] => true
  | x :: a', y :: b' => pbyte_eqb x y && pbytes_eqb a' b'
  | _, _ => false
  end.

(** [buffer.add(off).cast::<C>().read_unaligned()]; a zero-sized value occupies no byte: its payload is 0 *)
Definition read_at (sizes : list nat) (c : nat) (buf : list pbyte) (off : nat) : option val :=
  if Nat.ltb (length buf) (off + size_of sizes c) then None
  else match firstn (size_of sizes c) (skipn off buf) with
       | [] => Some 0%N
       | ((c', v, k) :: _) as bs => if pbytes_eqb bs (bytes_of sizes c v) then Some v else None
       end.

(** [push_components_from_buffer_and_component]: walk the registry along the NEW identifier *)
Fixpoint unpack_add (sizes : list nat) (i : nat) (sh' : shape) (c : nat) (v : val) (buf : list pbyte) (off : nat)
  : option (list val) :=
  match sh' with
  | [] => Some []
  | b :: t =>
      if b then
        if Nat.eqb i c then option_map (cons v) (unpack_add sizes (S i) t c v buf off)
        else match read_at sizes i buf off with
             | Some x => option_map (cons x) (unpack_add sizes (S i) t c v buf (off + size_of sizes i))
             | None => None
             end
      else unpack_add sizes (S i) t c v buf off
  end.

(** [push_components_from_buffer_skipping_component]: at the removed component the buffer is advanced whatever the bit says *)
Fixpoint unpack_skip (sizes : list nat) (i : nat) (sh' : shape) (c : nat) (buf : list pbyte) (off : nat)
  : option (list val) :=
  match sh' with
  | [] => Some []
  | b :: t =>
      if Nat.eqb i c then unpack_skip sizes (S i) t c buf (off + size_of sizes i)
      else if b then
        match read_at sizes i buf off with
        | Some x => option_map (cons x) (unpack_skip sizes (S i) t c buf (off + size_of sizes i))
        | None => None
        end
      else unpack_skip sizes (S i) t c buf off
  end.

(** a row is well formed for a shape: one value per present component, payload 0 for zero-sized ones *)
Definition row_ok (sizes : list nat) (sh : shape) (row : list val) : Prop :=
  length row = count_true sh /\
  forall c v, In (c, v) (combine (comps_from 0 sh) row) -> size_of sizes c = 0 -> v = 0%N.

(** ** The two operations as the code performs them, from identifier bytes and row to identifier bytes and row *)
Definition phys_entry_add (sizes : list nat) (n : nat) (bytes : list N) (row : list val) (c : nat) (v : val)
  : option (list N * list val) :=
  let buf := pack sizes (shape_of_bytes' n bytes) row in
  let bytes' := add_bytes c bytes in
  match unpack_add sizes 0 (shape_of_bytes' n bytes') c v buf 0 with
  | Some row' => Some (bytes', row')
  | None => None
  end.

(** ... and the value dropped last, read from the buffer at the offset the masked identifier gives *)
Definition phys_entry_remove (sizes : list nat) (n : nat) (bytes : list N) (row : list val) (c : nat)
  : option (list N * list val * val) :=
  let buf := pack sizes (shape_of_bytes' n bytes) row in
  let bytes' := remove_bytes c bytes in
  match unpack_skip sizes 0 (shape_of_bytes' n bytes') c buf 0 with
  | Some row' =>
      let offset := size_of_components sizes (shape_of_bytes' n (mask_bytes c bytes)) in
      match read_at sizes c buf offset with
      | Some old => Some (bytes', row', old)
      | None => None
      end
  | None => None
  end.
