(** Deserialization of an archetype's serialized content
    ([archetype/identifier/impl_serde.rs], [archetype/impl_serde.rs]): the
    identifier arrives as bytes, the length is declared, the rows (or columns)
    follow.  What is accepted becomes an [arch] handed to [de_world] (Multi.v).
    Definitions only. *)
From Brood Require Export World Multi.
From Brood Require Export Bytes.

(** Identifier bytes -> shape: bit k of the registry is bit (k mod 8) of byte (k / 8). *)
Definition byte_bit (b : N) (i : nat) : bool := N.testbit b (N.of_nat i).

Definition shape_of_bytes (n : nat) (bytes : list N) : shape :=
  map (fun k => byte_bit (nth (k / 8) bytes 0%N) (k mod 8)) (seq 0 n).

(* [bytes_of_shape] lives in Base.v: the archetype table's clear order compares identifiers by their bytes *)

(** The check as the code writes it — regenerated from the source (Gen/Bytes.v): guard, which
    byte, which shift amount, and the u8 test itself. *)
Definition padding_rejected (n : nat) (bytes : list N) : bool :=
  if padding_guard (N.of_nat n)
  then padding_reject (nth (N.to_nat (padding_byte_index (N.of_nat n))) bytes 0%N) (padding_bit (N.of_nat n))
  else false.

(** What the property needs: no bit at a position >= n is set. *)
Definition padding_clear (n : nat) (bytes : list N) : bool :=
  forallb (fun k => negb (byte_bit (nth (k / 8) bytes 0%N) (k mod 8))) (seq n (8 * length bytes - n)).

(** One serialized archetype: identifier bytes, declared length, rows (identifier + values). *)
Record sarch := mkSArch { sa_bytes : list N; sa_len : nat; sa_rows : list row }.

Inductive c_error := CBadIdentifier | CBadLength | CBadRow | CWorld (e : de_error).

Definition decode_arch (n : nat) (sa : sarch) : c_error + arch :=
  if negb (Nat.eqb (length (sa_bytes sa)) ((n + 7) / 8)) then inl CBadIdentifier
  else if negb (forallb (fun b => N.ltb b 256) (sa_bytes sa)) then inl CBadIdentifier
  else if padding_rejected n (sa_bytes sa) then inl CBadIdentifier
  else
    let sh := shape_of_bytes n (sa_bytes sa) in
    if negb (Nat.eqb (length (sa_rows sa)) (sa_len sa)) then inl CBadLength
    else if negb (forallb (fun rw => Nat.eqb (length (snd rw)) (count_true sh)) (sa_rows sa)) then inl CBadRow
    else inr (mkArch sh (sa_rows sa)).

Fixpoint decode_archs (n : nat) (l : list sarch) : c_error + list arch :=
  match l with
  | [] => inr []
  | sa :: t =>
      match decode_arch n sa with
      | inl e => inl e
      | inr a => match decode_archs n t with inl e => inl e | inr r => inr (a :: r) end
      end
  end.

Definition de_content (n : nat) (archs : list sarch) (len : nat) (free : list eid) (res : list val)
  : c_error + world :=
  match decode_archs n archs with
  | inl e => inl e
  | inr as_ =>
      match de_world n (mkSWorld as_ len free res) with
      | inl e => inl (CWorld e)
      | inr w => inr w
      end
  end.

(** Encoding of a world's archetypes (what the serializer writes). *)
Definition encode_arch (a : arch) : sarch :=
  mkSArch (bytes_of_shape (a_shape a)) (length (a_rows a)) (a_rows a).
