//! Process-global ledger of user-code callbacks (construction, clone, drop, …).
use std::collections::HashMap;
use std::sync::Mutex;

#[derive(Clone, Copy, PartialEq, Eq, Debug, Hash)]
pub enum Kind {
    New,
    Drop,
    Clone,
    Eq,
    Ser,
    De,
    Dbg,
}

#[derive(Default)]
pub struct Ledger {
    /// Events since the last `take_events`.
    pub events: Vec<(Kind, u8, u64)>,
    /// Live instance count per (component, token).
    pub live: HashMap<(u8, u64), i64>,
    /// Drops of a (component, token) with no live instance.
    pub double_drops: Vec<(u8, u64)>,
    /// Armed fault: panic at the k-th (0-based) callback of this kind.
    pub fault: Option<(Kind, u64)>,
    /// Only callbacks of components numbered at least this count towards the fault.
    pub fault_min_comp: u8,
    pub fault_fired: bool,
}

pub static LEDGER: Mutex<Option<Ledger>> = Mutex::new(None);

fn with<R>(f: impl FnOnce(&mut Ledger) -> R) -> R {
    let mut guard = match LEDGER.lock() {
        Ok(g) => g,
        Err(p) => p.into_inner(),
    };
    if guard.is_none() {
        *guard = Some(Ledger::default());
    }
    f(guard.as_mut().unwrap())
}

/// Record a callback; returns true if an armed fault fires here.
pub fn record(kind: Kind, comp: u8, tok: u64) -> bool {
    with(|l| {
        let mut fire = false;
        if let Some((k, n)) = l.fault {
            if k == kind && comp >= l.fault_min_comp {
                if n == 0 {
                    l.fault = None;
                    l.fault_fired = true;
                    fire = true;
                } else {
                    l.fault = Some((k, n - 1));
                }
            }
        }
        l.events.push((kind, comp, tok));
        match kind {
            Kind::New | Kind::De => {
                *l.live.entry((comp, tok)).or_insert(0) += 1;
            }
            Kind::Clone => {
                if !fire {
                    *l.live.entry((comp, tok)).or_insert(0) += 1;
                }
            }
            Kind::Drop => {
                let e = l.live.entry((comp, tok)).or_insert(0);
                *e -= 1;
                if *e < 0 {
                    l.double_drops.push((comp, tok));
                }
            }
            _ => {}
        }
        fire
    })
}

pub fn callback(kind: Kind, comp: u8, tok: u64) {
    if record(kind, comp, tok) {
        panic!("verif-fault {:?} comp={} tok={}", kind, comp, tok);
    }
}

pub fn take_events() -> Vec<(Kind, u8, u64)> {
    with(|l| std::mem::take(&mut l.events))
}

pub fn arm(kind: Kind, k: u64) {
    arm_from(kind, k, 0)
}

/// Only callbacks of components numbered `min_comp` or higher count (resources are numbered from 100).
pub fn arm_from(kind: Kind, k: u64, min_comp: u8) {
    with(|l| {
        l.fault = Some((kind, k));
        l.fault_min_comp = min_comp;
        l.fault_fired = false;
    })
}

pub fn disarm() -> bool {
    with(|l| {
        l.fault = None;
        l.fault_fired
    })
}

pub fn reset() {
    with(|l| *l = Ledger::default())
}

/// (live instances remaining, double drops seen)
pub fn audit() -> (Vec<((u8, u64), i64)>, Vec<(u8, u64)>) {
    with(|l| {
        let mut live: Vec<_> = l.live.iter().filter(|(_, &n)| n != 0).map(|(k, &n)| (*k, n)).collect();
        live.sort();
        (live, l.double_drops.clone())
    })
}
