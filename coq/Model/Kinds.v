(** Layer K: the vocabulary of decisions taken at the type level
    (view kinds, filters, claims).  Definitions only; the finite tables
    themselves are regenerated from the Rust source into Gen/Tables.v. *)
From Brood Require Export Base.

Inductive vkind := KRef | KMut | KOptRef | KOptMut.

(** A view on a component (by registry index) or the entity identifier. *)
Inductive view := VComp (k : vkind) (c : nat) | VIdent.

Inductive qfilter :=
| FNone                      (* filter::None: no filtering *)
| FHas (c : nat)
| FNot (f : qfilter)
| FAnd (f g : qfilter)
| FOr (f g : qfilter)
| FViews (vs : list view).   (* views used as a filter *)

Inductive claim := CNone | CImm | CMut.

Inductive decision := Append | Cut.

(** What the claims list of the current stage holds for a component. *)
Inductive ckind := PNotPresent | PRef | POptRef | PMut | POptMut.

Definition vkind_eqb (a b : vkind) : bool :=
  match a, b with
  | KRef, KRef | KMut, KMut | KOptRef, KOptRef | KOptMut, KOptMut => true
  | _, _ => false
  end.

Definition is_mut_kind (k : vkind) : bool :=
  match k with KMut | KOptMut => true | _ => false end.

Definition is_opt_kind (k : vkind) : bool :=
  match k with KOptRef | KOptMut => true | _ => false end.

Definition claim_eqb (a b : claim) : bool :=
  match a, b with
  | CNone, CNone | CImm, CImm | CMut, CMut => true
  | _, _ => false
  end.
