(** Proofs about [World::clone_from] under a panic (C17, C13; finding F11). *)
From Brood Require Import Base CloneFromW.

Lemma nth_error_nil A i : nth_error (@nil A) i = None.
Proof. destruct i; reflexivity. Qed.

Lemma row_of_emptied (archs : list (list nat)) slots a r : row_of (mkPW (map (fun _ => []) archs) slots) a r = None.
Proof.
  unfold row_of. cbn [pw_archs]. destruct (nth_error (map (fun _ : list nat => @nil nat) archs) a) as [rows|] eqn:E; [|reflexivity].
  apply nth_error_In, in_map_iff in E as (x & <- & _). apply nth_error_nil.
Qed.

(** * Old identifiers forgotten first, archetypes emptied on unwind: whatever archetype the panic
      happens in, the world the caller gets back is consistent (it is empty); without a panic it is the source *)
Theorem clone_from_world_safe dst src fault : WInv src -> WInv (pw_clone_from_gen true true dst src fault).
Proof.
  intros HS. destruct fault as [k|]; [|exact HS]. unfold pw_clone_from_gen. split.
  - intros i a r H. cbn [pw_slots] in H. rewrite nth_error_nil in H. discriminate.
  - intros a r i H. rewrite row_of_emptied in H. discriminate.
Qed.

Lemma world_facts : fact_world_clone_from_forgets_identifiers_first = true /\ fact_world_clone_from_clears_on_unwind = true.
Proof. split; reflexivity. Qed.

Theorem clone_from_world_safe_src dst src fault : WInv src -> WInv (pw_clone_from dst src fault).
Proof. unfold pw_clone_from. destruct world_facts as [-> ->]. apply clone_from_world_safe. Qed.

(** * Each of the two is needed *)
Definition w_dst : pworld := mkPW [[0; 1; 2]; [3]] [Some (0, 0); Some (0, 1); Some (0, 2); Some (1, 0)].
Definition w_src : pworld := mkPW [[0]; [1]] [Some (0, 0); Some (1, 0)].

Lemma w_dst_inv : WInv w_dst.
Proof.
  split.
  - intros i a r H. destruct i as [|[|[|[|i]]]]; cbn in H; try (inversion H; subst; reflexivity).
    rewrite nth_error_nil in H. discriminate.
  - intros a r i H. unfold row_of in H. destruct a as [|[|a]]; cbn in H.
    + destruct r as [|[|[|r]]]; cbn in H; try (inversion H; subst; reflexivity). rewrite nth_error_nil in H. discriminate.
    + destruct r as [|r]; cbn in H; [inversion H; subst; reflexivity|]. rewrite nth_error_nil in H. discriminate.
    + rewrite nth_error_nil in H. discriminate.
Qed.

Lemma w_src_inv : WInv w_src.
Proof.
  split.
  - intros i a r H. destruct i as [|[|i]]; cbn in H; try (inversion H; subst; reflexivity).
    rewrite nth_error_nil in H. discriminate.
  - intros a r i H. unfold row_of in H. destruct a as [|[|a]]; cbn in H.
    + destruct r as [|r]; cbn in H; [inversion H; subst; reflexivity|]. rewrite nth_error_nil in H. discriminate.
    + destruct r as [|r]; cbn in H; [inversion H; subst; reflexivity|]. rewrite nth_error_nil in H. discriminate.
    + rewrite nth_error_nil in H. discriminate.
Qed.

(** the old allocator kept (before F11): identifier 2 is accepted and points at a row that no longer exists *)
Lemma stale_allocator_resolves_nowhere :
  let w := pw_clone_from_gen false true w_dst w_src (Some 1) in
  nth_error (pw_slots w) 2 = Some (Some (0, 2)) /\ row_of w 0 2 = None.
Proof. vm_compute. auto. Qed.

(** no emptying on unwind (the first, incomplete repair of F11): a row is stored under an identifier the
    allocator does not know; [World::clear] would release it with an unchecked index *)
Lemma unknown_rows_stay :
  let w := pw_clone_from_gen true false w_dst w_src (Some 1) in
  row_of w 0 0 = Some 0 /\ nth_error (pw_slots w) 0 = None.
Proof. vm_compute. auto. Qed.

(** * [World::remove]: with the identifier released first the state after a panicking Drop is the state
      after a completed removal *)
Lemma remove_fact : fact_remove_frees_identifier_first = true.
Proof. reflexivity. Qed.

Theorem remove_state_independent_of_panic w i a r panics : pw_remove w i a r panics = pw_remove w i a r false.
Proof. unfold pw_remove. rewrite remove_fact. reflexivity. Qed.

(** releasing first or last is the same removal when nothing panics *)
Example remove_orders_agree : pw_remove_gen true w_dst 0 0 0 false = pw_remove_gen false w_dst 0 0 0 false /\
  winv_b (pw_remove_gen true w_dst 0 0 0 false) = true /\ winv_b (pw_remove_gen true w_dst 0 0 0 true) = true.
Proof. vm_compute. auto. Qed.

(** released last (before the repair), a panic leaves identifier 0 accepted at a row that now holds identifier 2 *)
Lemma remove_released_last_dangles :
  let w := pw_remove_gen false w_dst 0 0 0 true in
  nth_error (pw_slots w) 0 = Some (Some (0, 0)) /\ row_of w 0 0 = Some 2 /\ winv_b w = false.
Proof. vm_compute. auto. Qed.
