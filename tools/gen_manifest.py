#!/usr/bin/env python3
"""Regenerates /verif/MANIFEST.json from the table below (kept in one place so
the manifest is always schema-valid and in step with what is registered)."""
import json
import os

VERIF = os.path.dirname(os.path.dirname(os.path.abspath(__file__)))
props = [json.loads(l) for l in open(os.path.join(VERIF, "properties.jsonl"))]

WH_NOTE = ("trusted: Coq 8.16.1 kernel (no axioms: Print Assumptions is 'Closed under the global context' for every "
           "property theorem), extraction with ExtrOcamlBasic only, OCaml driver, Rust harness + hook H1 (verif_dump), "
           "canonicalisation in lib/wh.py; the model is hand-written and tied to /repo by op-by-op differential "
           "execution; Vec/VecDeque/hashbrown/serde modelled by contract; archetype-table order is an oracle input")

CLAIMED = {
    "C05": dict(engine="world-histories",
                text="Proved: no history ever fails an unchecked access of the allocator/archetype table/world operations (every "
                     "get_unchecked/unwrap_unchecked/unreachable_unchecked is a checked access in the model), also from deserialized "
                     "worlds; views never select a column other than their component's; at the cell level the in-place column "
                     "operations keep the first `length` cells of every column live (what makes from_raw_parts(ptr,length,cap) "
                     "sound) and releasing such a store drops nothing twice; at the allocation level (coq/Model/Heap.v) a store of any "
                     "number of columns kept as raw parts (address, capacity) + length over one heap, under every history of push/"
                     "reserve/shrink_to_fit/set_len/free and every answer of the growth oracle: every Vec::from_raw_parts finds a live "
                     "block of its element type and exactly that capacity (so release/resize use the creation layout), no block is "
                     "released twice, no two columns share a block, every block has an owner, and releasing every column empties "
                     "the heap -- given the pointer/capacity write-back after each capacity-changing call, which is regenerated from "
                     "the source per call site (coq/Gen/Facts.v fact_wb_*) and shown necessary by three refuting histories; the identifier "
                     "bit iterator that drives every column walk, with its four decisions regenerated from identifier/iter.rs, returns for "
                     "every registry size and identifier exactly the bits the model reads and never leaves the identifier's allocation "
                     "(C05_identifier_iterator); the macro that contains `unsafe` must not lend it to the caller: eleven programs calling an "
                     "`unsafe fn` in every argument position of every entities! arm must be rejected by rustc with E0133 (finding F17, "
                     "repaired by /repo 9c6c66f; that no unsafe block of the macro holds a metavariable is a source-derived fact). PARTIAL, "
                     "carried by the correspondence on the real code: an auditing global allocator checks after every operation that "
                     "blocks are released once, with the size/alignment they were created with, and that every block obtained during "
                     "a history is returned once all worlds are dropped (registries with zero-sized, over-aligned, heap-owning, "
                     "1/2/4/8/16-byte components); freed library blocks are poisoned and quarantined. No theorem about byte sizes/"
                     "alignments of concrete component types or the packed row buffer offsets.",
                technique="Rocq proof that Inv excludes every unchecked-access failure, that the cell-level column operations preserve a clean store and that the raw-parts column store never misuses or leaks a heap block (write-back facts regenerated from the source) + allocator audit of the real library on generated histories",
                ref="DESIGN.md §7 C05"),
    "C17": dict(engine="world-histories",
                text="Cell-level model with a fault parameter (the k-th Drop callback of an operation panics, the operation stops where "
                     "the code is unwound): proved safe for every k for dropping a world, for overwriting a component, for clear (finding "
                     "F8b, repaired by /repo f9f2365) and for remove (finding F8a, repaired by /repo 2da519c: the row leaves every "
                     "column and the length before any Drop runs); the orderings the proofs rest on are read off the source on every "
                     "run (Gen/Facts.v), and the behaviour before each repair is kept as a refutation with a witness. On the real code "
                     "a panic is injected into the k-th callback of every kind (Drop, Clone, Eq, Serialize, Deserialize, Debug) of every "
                     "operation on small multi-column worlds; after the caught panic the dump of every world must still satisfy the "
                     "index/storage invariant safe calls rely on unchecked (findings F11, repaired by f1ccfcd, and F8c, repaired by "
                     "342a817), safe calls are made through every identifier issued so far, the world is cleared, and every world is "
                     "dropped under the auditing allocator: no value dropped twice, no block released twice or with a wrong layout; for "
                     "remove/clear/overwrite the set of doubly dropped values is compared with the model's prediction. Archetype::clone_from has a cell-level model "
                     "over both callback kinds (the k-th Clone or Drop panics): no double drop for any k and any lengths, and a call "
                     "that returns holds exactly the source's values; the growth-then-panic case is proved at the heap level; "
                     "World::clone_from, World::remove and Entry::remove are modelled at the level of identifiers and rows: the world "
                     "the caller gets back after the panic satisfies the index invariant (orderings read off the source, each shown "
                     "necessary). PARTIAL: clone, serde, ==, Debug and system bodies have no fault model; they are judged on the real "
                     "code only (every callback kind, every position, resources included).",
                technique="Rocq proof/refutation over a cell-level fault model + exhaustive-position panic injection on the real library under a quarantining allocator",
                ref="DESIGN.md §7 C17"),
    "C14": dict(engine="compile-family", note="CFAIL_NOTE",
                text="Proved: whatever the modelled bounds accept (ContainsViews, Disjoint through the regenerated Merge table, resource "
                     "ContainsViews, Send/Sync bounds and returned-reference lifetimes regenerated from the source) holds no two "
                     "simultaneously usable references to one component/resource with one mutable, views nothing outside the registry "
                     "and lets no non-Send/non-Sync payload cross threads, outside known class K14a (F3, refuted with witness); the "
                     "conflict-free neighbours are accepted. A generated family of 132 programs is compiled by the real rustc (trait "
                     "resolution crate + borrow-check crate), verdicts compared with the property and with the model. PARTIAL: rustc's "
                     "trait solver and borrow checker are the oracle for the bounds themselves. The Disjoint bound between views and entry views is present on every public way to a query result (query, par_query, run_system, run_par_system, both Task impls): a source-derived fact the acceptance model depends on, with programs through each of them.",
                technique="Rocq proof that the modelled API bounds imply no aliasing / no thread escape (facts regenerated from signatures) + rustc verdicts on a generated program family",
                ref="DESIGN.md §7 C14"),
    "C09": dict(engine="world-histories",
                text="Proved for every consumer obeying rayon's contract (associative reducer with the empty fold as unit, driving "
                     "distributes over concatenation) and every splitting of the archetype sequence: the custom "
                     "ResultsConsumer/ResultsFolder drives exactly the sequential item sequence, hence (with C03) exactly the "
                     "comprehension over the map, each entity once; RepeatNone yields exactly count Nones under any index "
                     "splitting; the column zip hands each row index to exactly one item. par_query counterparts of the query "
                     "family (collect, and for_each that overwrites through mutable views) run inside the world histories on "
                     "pools of 1/2/4/16 threads; rows compared with the sequential semantics, addresses of mutable items "
                     "pairwise distinct; 'the outcome of a parallel system equals that of its sequential counterpart' is also judged "
                     "inside schedules (every run of a schedule containing a ParSystem must end in the state its tasks produce one "
                     "by one). PARTIAL: rayon's bridge/producers and hashbrown's RawParIter by contract; no real "
                     "interleavings in the model.",
                technique="Rocq proof of the consumer/folder algebra under arbitrary split trees (rayon by contract) + par vs seq differential execution on several pool sizes",
                ref="DESIGN.md §7 C09"),
    "C11": dict(engine="world-histories",
                text="Proved for ALL serialized content (identifier bytes, declared lengths, rows, allocator length, free list, "
                     "resources): de_content returns an error or a world satisfying Inv, from which no history gets stuck; the "
                     "padding check as written in u8 arithmetic is exact (finite table); what the serializer writes decodes to "
                     "itself (registries <= 16, finite check). The harness mutates the real content of reachable worlds (21 mutation "
                     "kinds: duplicated/foreign/missing identifiers, free-and-stored, lengths, identifier bytes and padding bits, "
                     "short/long/ill-typed rows, duplicated/removed/empty archetypes), encodes it in both encodings, runs the real "
                     "deserializer, compares verdict and resulting world with the model, audits created vs dropped values after "
                     "every failed attempt. Cleanup of a failed row-wise table at the cell level (coq/Model/DeRows.v): for every number of "
                     "columns, declared length and rows (short, long, ill-typed at any cell, too few rows) a failure drops exactly the "
                     "values it created and a success none -- with the two repairs of finding F9 (fixed by /repo 6ba6288: the recursion "
                     "pops what it pushed when the rest of the row fails; the caller is told when a row was stored completely) read "
                     "off the source (fact_de_row_*) and each shown necessary. Token-level malformation: the unmutated serialization of a "
                     "reachable world with tokens duplicated, deleted, swapped or altered (any token, the k-th numeric one, the k-th "
                     "structural one) must be rejected without leaking or double-dropping a value, or accepted as a world the "
                     "content-level model accepts too (finding F14, a column leaked by the compact encoding on a trailing element, "
                     "repaired by /repo 95a4fbd). PARTIAL: the token grammar itself is serde's and is not modelled; no undefined behaviour is *proved* absent at the raw-parts level (see C05/C17).",
                technique="Rocq proof that every accepted content yields an Inv world (all inputs) + content-mutation differential execution against the real deserializer with drop audit",
                ref="DESIGN.md §7 C11"),
    "C03": dict(engine="world-histories",
                text="Proved for every Inv world, any views (any kinds/order/identifier/empty) and any filter: the query as the code "
                     "performs it (And<Views,Filter> on the identifier bits through the regenerated tables, column chosen by walking "
                     "the bits alongside the registry, reshape) never takes an unchecked column wrongly and equals a comprehension "
                     "over the identifier->component-vector map; the same for World::entry(..).query; size_hint brackets the "
                     "remaining count; a write through a mutable view changes that component of that entity only. A generated "
                     "family of 40 (R5) + 18 (R16) query instantiations runs inside the world histories (iteration, entry query, "
                     "mutable query) with size_hint checked before every next(). Query-time Entries: the sub-view table is regenerated "
                     "from subset.rs, no uninitialised slot is read and the result equals World::entry(e).query for the same views "
                     "(coq/Model/SubsetM.v; the extracted model runs it for the nqry operations). Three registries: 5, 9 (LEN % 8 == 1) "
                     "and 16 (LEN % 8 == 0) components.",
                technique="Rocq proof that the table-driven filter + bit-walk column selection equals a comprehension over the map + generated query family run differentially",
                ref="DESIGN.md §7 C03"),
    "C15": dict(engine="world-histories",
                text="Proved: get/get_mut are positional lookup and a write is seen at that position only; view_resources "
                     "(canonical views then Reshape by successive Get) returns, for every duplicate-free request in any order, the "
                     "j-th requested resource at position j; frame: no entity operation changes the resources, clone copies, "
                     "clone_from replaces, the serde round trip preserves. The harness holds four resource types of different "
                     "layouts, reads them after every operation through get and through 28 view_resources subsets/orders/"
                     "mutabilities, writes through get_mut and through single and two-resource mutable views. Which orders "
                     "type-check is modelled too (coq/Model/ResOrder.v: the Expanded walk with its Reshape witnesses, whose form "
                     "is read off the source on every run): every duplicate-free request of resources of the list is accepted in "
                     "whatever order, nothing else is, and with the witness tied to the tail's (the code before the repair of "
                     "finding F15, /repo 9c5bedd) rotations are rejected (refutation kept). 87 generated programs (every ordered "
                     "sub-list of four resources and the orders of three, through view_resources; rotations and reversals through "
                     "query and System resource views) must type-check -- rustc's verdict per program is compared with the model -- "
                     "and, run, must return the requested resource at each position.",
                technique="Rocq proof of positional get/view/reshape lemmas and the frame over all histories + differential execution with permuted resource views",
                ref="DESIGN.md §7 C15"),
    "C18": dict(engine="constructors", note="CTOR_NOTE",
                text="Proved over a model of the constructors whose control structure is regenerated from the source on every run "
                     "(which functions build a World/Batch value, that from_raw_parts asserts before building, that new/default/"
                     "with_resources/deserialize all reach it, that Batch::new asserts check_len and the only other constructor is "
                     "unsafe): a world is returned iff the registry is duplicate-free (else panic), Batch::new returns iff all column "
                     "lengths are equal (any number of columns incl. 0). Every duplicated registry x constructor and every small "
                     "ragged batch is run on the real library and compared with the model.",
                technique="Rocq proof over a constructor model parameterised by source-derived facts (translator) + exhaustive small-scope differential execution",
                ref="DESIGN.md §7 C18"),
    "C07": dict(engine="schedules", note="SCHED_NOTE",
                text="Proved over the scheduling model (stager + Stage::run/run_add_ons/Stages::run with has_run flags, tables regenerated "
                     "from the source): every accepted schedule runs every task exactly once and never hits a failing unchecked "
                     "merge; tasks that are not compatible on the world execute in declared order in every linearisation of the "
                     "fork/join term; hence for any task semantics in which compatible tasks commute every admissible order "
                     "equals the sequential run. PARTIAL: tasks are atomic in the model (no instruction-level interleavings). "
                     "Fork/join terms of real runs (hook H2, deterministic orders and real pools) equal the model's; final "
                     "world/resources/system state compared with sequential run_system on a clone.",
                technique="Rocq proof over a series-parallel run model (invariants of the claims map, linearisation + commutation) + shim-recorded fork/join correspondence",
                ref="DESIGN.md §7 C07"),
    "C08": dict(engine="schedules", note="SCHED_NOTE",
                text="Proved: two tasks under the two sides of one join of any run have no shared write on any archetype present "
                     "or any resource (the run-time claims test is proved to be exactly the absence of a shared write; the static "
                     "Verifier/Merger decision is proved sound on every world; table rows checked by computation on the regenerated "
                     "tables). The statement is about the fork/join structure, so all interleavings are covered at once. "
                     "Harness systems record every address they can reach; join-parallel pairs are intersected.",
                technique="Rocq proof on the fork/join structure (claims-map upper/least-upper-bound invariants) + recorded reachable addresses of join-parallel tasks",
                ref="DESIGN.md §7 C08"),
    "C12": dict(engine="schedules", note="SCHED_NOTE",
                text="Proved: verify says Cut exactly when declared views conflict (table is the conflict relation, not "
                     "over-conservative); the stager is the greedy in-order grouping (consecutive non-empty blocks, cut only at a "
                     "task that conflicts with the stage being closed); stage-mates that run in their own stage are pairwise "
                     "under a common join; on a world without archetypes all stage-mates are; run_schedule is total (finite "
                     "fork/join term). PARTIAL: completion on a given pool relies on rayon's join contract; real pools 1 and 4 "
                     "are run under a cap.",
                technique="Rocq proof of exactness of the regenerated Verifier table and greediness of the stager + shim trees on static staging, pools 1..16 under a cap",
                ref="DESIGN.md §7 C12"),
    "C01": dict(engine="world-histories",
                text="Refinement proved for every operation from every Inv world: step w o does to the identifier->component-vector "
                     "map exactly what the reference map does (feq fixes the value at every identifier, so no other entity changes), "
                     "len = number of keys, component order in entity!/entities! irrelevant, clone_from/serde reproduce the map; "
                     "reference-map oracle on the implementation after every op of generated histories. Finding F5 (a batch of component-less "
                     "entities stored nothing) is repaired by /repo e582bfb: that the number of rows travels with the batch is read off "
                     "the source (fact_batch_carries_row_count), C01_extend_rows holds without exception and the behaviour before the "
                     "repair is kept as C01_F5_before_the_repair.",
                technique="Rocq refinement proof (model step = reference-map step, all histories) + op-by-op differential execution",
                ref="DESIGN.md §7 C01"),
    "C02": dict(engine="world-histories",
                text="Freshness of every identifier issued (NoDup over whole histories, wrap-around of u64 generations explicit: "
                     "history shorter than 2^64, and the unbounded statement is proved false), stability of live identifiers under "
                     "every op not aimed at them, deadness for ever after remove/clear, remove of a dead id is the identity; "
                     "the harness probes every identifier ever issued after every op.",
                technique="Rocq proof by generation-history invariant over all histories + differential execution with stale-id probes",
                ref="DESIGN.md §7 C02"),
    "C04": dict(engine="world-histories",
                text="Multiset conservation proved per operation and over whole histories incl. the final world drop: owned + moved-in "
                     "= owned' + dropped, clone drops nothing and owns one clone of each value, clone_from drops exactly the "
                     "destination's values; per-op ledger delta of drop-observing components compared with the model's events and "
                     "an end-of-case audit (every token dropped exactly once).",
                technique="Rocq proof of drop-event conservation (Permutation) + per-op ledger comparison on the real library",
                ref="DESIGN.md §7 C04"),
    "C06": dict(engine="world-histories",
                text="Round trip proved over the serialized content (de_world (ser_world w) = w up to the type-id cache, "
                     "Inv and == of the result, any accepted content yields a valid world that serializes again); both "
                     "encodings exercised against the real serializer/deserializer on generated histories, result "
                     "compared field by field with the model and with the original world. 'From then on behaves identically': mirror "
                     "cases give a world, its clone and its round trip the same operations (clear, insert, extend, remove, shrink) "
                     "and require the same answers (identifiers issued), the same entities and the same free lists after each "
                     "(finding F6 -- clear freed the identifiers in the order of the address-keyed table -- repaired by /repo 290889e; "
                     "the model sorts the reported table order on a source-derived fact, and C06_clear_independent_of_table_order proves "
                     "the outcome of clear the same for every permutation of the table, for every registry size). The identifier "
                     "bytes written decode to the shape they were written for, for every registry size (C06_identifier_bytes_roundtrip).",
                technique="Rocq proof (round-trip + invariant) + differential execution of serde_assert round trips",
                ref="DESIGN.md §7 C06"),
    "C10": dict(engine="world-histories",
                text="clone / clone_from proved to reproduce the source's entities, identifiers, allocator state and "
                     "resources whatever the destination held, and to preserve Inv; independence of the two worlds is "
                     "carried by the correspondence (all worlds dumped after every op, pointer-identity ownership of "
                     "every slot location and lookup target); a world and its clone given the same operations must keep issuing the "
                     "same identifiers (mirror cases; finding F6, repaired).",
                technique="Rocq proof of clone/clone_from content + invariant; differential execution with all-world dumps",
                ref="DESIGN.md §7 C10"),
    "C13": dict(engine="world-histories",
                text="Inv (shapes, one table per component set, slot<->row bijection, free queue = inactive slots without "
                     "duplicates, len = rows, lookup targets exist) proved preserved by every operation, clone_from and "
                     "deserialization, for all histories; check_inv on the implementation dump after every op -- also after every "
                     "operation interrupted by an injected panic (findings F13: len() stale after a panicking Drop in clear, repaired by "
                     "/repo 3a72c59; F16: World::extend counted the batch before the fallible call, repaired; a probe program covers "
                     "the caught panics no history can build; the two orderings are source-derived facts and C13_len_after_interrupted_"
                     "clear/extend are proved on them). At the level of identifiers and rows alone (coq/Model/CloneFromW.v) the "
                     "slot<->row invariant is proved preserved by World::remove, by a push and by a shape change, for every world, "
                     "whatever Drop panics; Inv of the logical layer implies it (every reachable world), and World::remove of the "
                     "logical layer -- the operation the extracted model runs against the real library -- is proved to BE that "
                     "index-level removal (Proofs/IndexBridge.v).",
                technique="Rocq proof of invariant preservation by induction over histories + model/implementation correspondence",
                ref="DESIGN.md §7 C13"),
    "C16": dict(engine="world-histories",
                text="world_eqb (mirror of impl_eq.rs) proved reflexive, symmetric and sound w.r.t. the identifier->values "
                     "map and resources; clone and serde round trip compare equal; == exercised in both directions on "
                     "generated pairs and compared with the model and with dump equality.",
                technique="Rocq proof of reflexivity/symmetry/soundness of the equality model + differential execution",
                ref="DESIGN.md §7 C16"),
}

SCHED_NOTE = ("trusted: Coq 8.16.1 kernel (no axioms), tools/translate.py (decision tables regenerated from the Rust source into "
              "coq/Gen/Tables.v on every run; vm_compute over the finite kind domains), in-Coq evaluation of the model (coqc, "
              "vm_compute) for the correspondence, Rust schedule harness + hook H2 (fork/join shim shadowing rayon in stage.rs), "
              "lib/sched.py; rayon join/bridge, hashbrown and rustc's trait solver modelled by contract; tasks atomic")

CTOR_NOTE = ("trusted: Coq 8.16.1 kernel (no axioms), tools/translate_facts.py (structural facts regenerated into coq/Gen/Facts.v), "
             "in-Coq evaluation of the model for the correspondence, generated Rust harness (harness/src/bin/ctor*.rs); "
             "TypeId injectivity; serde_json as the deserializer")

CFAIL_NOTE = ("trusted: Coq 8.16.1 kernel (no axioms), tools/translate_facts.py + tools/translate.py (bounds and lifetimes read off the "
              "source), in-Coq evaluation of the model, rustc 1.95 as the oracle for trait resolution and borrow checking, "
              "attribution of diagnostics to programs by primary span line (tools/gen_cfail.py, lib/props.py)")

NA_REASON = "not built yet: needs the physical raw-parts layer P of DESIGN.md §3.3 (the technique applies; see DESIGN.md §0)"


def main():
    extra = os.path.join(VERIF, "tools", "manifest_extra.json")
    claimed = dict(CLAIMED)
    if os.path.exists(extra):
        claimed.update(json.load(open(extra)))
    checks = []
    for p in props:
        pid = p["id"]
        if pid not in claimed:
            continue
        c = claimed[pid]
        checks.append({
            "property_id": pid,
            "quick_cmd": "./check %s --tier quick" % pid,
            "thorough_cmd": "./check %s --tier thorough" % pid,
            "evidence_file": "/verif/evidence/%s.json" % pid,
            "replay_cmd_template": "./check %s --replay {path}" % pid,
            "engine": c["engine"],
            "level_claimed": {"category": "proof", "text": c["text"], "design_ref": c["ref"]},
            "level_note": SCHED_NOTE if c.get("note") == "SCHED_NOTE" else CTOR_NOTE if c.get("note") == "CTOR_NOTE" else CFAIL_NOTE if c.get("note") == "CFAIL_NOTE" else c.get("note", WH_NOTE),
            "technique": c["technique"],
        })
    engines = [
        {"name": "world-histories", "path": "lib/wh.py",
         "serves_properties": ["C01", "C02", "C03", "C04", "C05", "C06", "C09", "C10", "C11", "C13", "C15", "C16", "C17"],
         "kind_free_text": "random+corpus operation histories run on the real library (harness/src/bin/wh.rs) and on the "
                           "extracted Gallina model (extract/wh_driver.ml), compared step by step; spec-side oracles "
                           "(reference map, structural invariant, ledger, equality, independence) on the implementation trace"},
        {"name": "schedules", "path": "lib/sched.py", "serves_properties": ["C07", "C08", "C12"],
         "kind_free_text": "generated schedule family (one binary per schedule type) run through the fork/join shim in "
                           "deterministic orders and on real rayon pools; fork/join terms compared with the Gallina model "
                           "evaluated in Coq on the regenerated tables; sequential-reference, reachable-address and greedy-grouping oracles"},
        {"name": "constructors", "path": "lib/props.py", "serves_properties": ["C18"],
         "kind_free_text": "generated registries with one duplicated type x 4 constructors, all small column-length vectors through Batch::new"},
        {"name": "compile-family", "path": "lib/props.py", "serves_properties": ["C14"],
         "kind_free_text": "generated Rust programs (tools/gen_cfail.py), one function per program in two crates, compiled by cargo check; verdict per program by diagnostic span"},
    ]
    m = {"version": 1,
         "setup_cmd": "./setup.sh",
         "hooks": {"guard": "--cfg brood_verif",
                   "enable": "RUSTFLAGS=\"--cfg brood_verif\" (set by lib/common.py for every harness build)",
                   "baseline_off_cmd": "cd /repo && cargo test --workspace --no-fail-fast --offline",
                   "source_commits": ["a7ed20d", "710af89"], "add_only": True},
         "engines": engines,
         "checks": checks,
         "notes": "Family: machine-checked proof in Rocq (Coq 8.16.1): theorems over an executable Gallina model in coq/, "
                  "tied to /repo on every run by differential execution (and regenerated tables where a translator "
                  "applies). See DESIGN.md.",
         "not_applicable": [{"property_id": p["id"], "reason": NA_REASON} for p in props if p["id"] not in claimed]}
    with open(os.path.join(VERIF, "MANIFEST.json"), "w") as f:
        json.dump(m, f, indent=1)
    print("claimed:", sorted(claimed))


if __name__ == "__main__":
    main()
