"""World-history engine: generates operation histories, runs them on the real
library (harness `wh`) and on the extracted model (`wh_model`), parses both
traces, and provides property oracles that work on the implementation trace
alone (reference map, structural invariant, ledger, …)."""
import json
import os
import subprocess
import time
from collections import Counter

from common import (BUILD, EXTRACT, TARGET, VERIF, Infra, SplitMix, build_extract, build_harness,
                    repo_hash, verif_hash)

NCOMP = 5
sys_path_tools = os.path.join(VERIF, "tools")
import sys as _sys
if sys_path_tools not in _sys.path:
    _sys.path.insert(0, sys_path_tools)
from gen_harness import PALETTE16, PALETTE9, query_family, entries_family, views_text, filter_text  # noqa: E402
QFAM = {5: query_family(5), 9: query_family(9), 16: query_family(16)}
EFAM = {5: entries_family(5), 9: entries_family(9), 16: entries_family(16)}
PALETTES = {9: PALETTE9, 16: PALETTE16}
REG_BIN = {5: "wh", 9: "wh9", 16: "wh16"}
CACHE = os.path.join(BUILD, "cache")


# ------------------------------------------------------------------ generator

def gen_case(rng, max_ops, mirror=False, ncomp=5):
    """One history. Entities are addressed by ordinal (#k = k-th identifier
    issued in this case) so the generator needs no model of the allocator."""
    lines = []
    tok = [1000]

    def fresh():
        tok[0] += 1
        return tok[0]

    nworlds = 3
    live = {0: set()}       # believed-live ordinals per world
    freec = {0: 0}          # believed number of free slots per world
    issued = [0]
    NCOMP = ncomp
    palette = []
    if ncomp == 5:
        for _ in range(rng.choice([2, 3, 4, 5])):
            m = rng.below(32)
            if rng.chance(1, 3):
                m &= rng.below(32)
            palette.append(m)
        if rng.chance(1, 6):
            palette.append(0)
        anymask = lambda: rng.below(32)  # noqa: E731
    else:
        # only the instantiated shapes can be named by insert/extend/reserve; Entry::add/remove reach the others
        for _ in range(rng.choice([2, 3, 4, 5])):
            palette.append(rng.choice(PALETTES[ncomp]))
        anymask = lambda: rng.choice(PALETTES[ncomp])  # noqa: E731
    lines.append("new 0 %d %d %d %d" % (fresh(), fresh(), fresh(), fresh()))

    def comps_of(mask, desc):
        cs = [k for k in range(NCOMP) if mask >> k & 1]
        if len(cs) > 6:
            desc = 0       # large shapes are instantiated in ascending textual order only
        return cs[::-1] if desc else cs

    def target(ws):
        if issued[0] == 0:
            return "#0"
        r = rng.below(10)
        if r < 6 and live[ws]:
            return "#%d" % rng.choice(sorted(live[ws]))
        if r < 9:
            return "#%d" % rng.below(issued[0])
        return "#%d^%d" % (rng.below(issued[0]), rng.choice([1, 1, 2, 18446744073709551615]))

    nops = 3 + rng.below(max_ops - 2)
    for _ in range(nops):
        wss = sorted(live.keys())
        if not wss:
            lines.append("new 0 %d %d %d %d" % (fresh(), fresh(), fresh(), fresh()))
            live[0] = set()
            freec[0] = 0
            continue
        ws = rng.choice(wss)
        kind = rng.weighted([("ins", 22), ("ext", 12), ("rem", 18), ("ead", 8), ("erm", 8), ("wrt", 6),
                             ("clr", 2), ("shr", 3), ("rsv", 3), ("rset", 2), ("cln", 3), ("clf", 3),
                             ("srd", 4), ("eq", 3), ("drop", 1), ("new", 1), ("qry", 9), ("eqry", 4), ("nqry", 5), ("qwr", 3), ("mde", 6), ("tde", 6), ("pqry", 7), ("pqwr", 3), ("erm2", 4), ("xrg", 2), ("ead2", 4)])
        if kind == "ins":
            mask = rng.choice(palette) if rng.chance(5, 6) else anymask()
            desc = rng.below(2)
            cs = comps_of(mask, desc)
            desc = desc if len(cs) <= 6 else 0
            lines.append("ins %d %d %d %s" % (ws, desc, len(cs), " ".join("%d %d" % (c, fresh()) for c in cs)))
            live[ws].add(issued[0])
            issued[0] += 1
            freec[ws] = max(0, freec[ws] - 1)
        elif kind == "xrg":
            # ragged batch through the safe constructor: must be refused
            mask = rng.choice([m_ for m_ in palette if bin(m_).count("1") >= 2]
                              or ([3] if NCOMP == 5 else [m_ for m_ in PALETTES[NCOMP] if bin(m_).count("1") >= 2]))
            desc = rng.below(2)
            cs = comps_of(mask, desc)
            desc = desc if len(cs) <= 6 else 0
            rows = 1 + rng.below(3)
            j = len(cs) - 1 - rng.below(min(len(cs), 3)) if rng.chance(2, 3) else rng.below(len(cs))
            longer = rng.below(2)
            nvals = rows * len(cs) + (1 if longer else -1)
            lines.append("xrg %d %d %d %s %d %d %d %s" % (ws, desc, len(cs), " ".join(map(str, cs)), rows, j, longer,
                                                       " ".join(str(fresh()) for _ in range(nvals))))
        elif kind == "ext":
            mask = rng.choice(palette) if rng.chance(5, 6) else anymask()
            desc = rng.below(2)
            cs = comps_of(mask, desc)
            desc = desc if len(cs) <= 6 else 0
            f = freec[ws]
            rows = rng.choice([0, 1, 2, 3, max(0, f - 1), f, f + 1, f + 2, rng.below(6)])
            vals = []
            for _r in range(rows):
                vals += [str(fresh()) for _c in cs]
            lines.append(("ext %d %d %d %s %d %s" % (ws, desc, len(cs), " ".join(map(str, cs)), rows,
                                                     " ".join(vals))).replace("  ", " ").strip())
            n_issued = rows if cs else 0
            for _r in range(n_issued):
                live[ws].add(issued[0])
                issued[0] += 1
            freec[ws] = max(0, freec[ws] - n_issued)
        elif kind == "rem":
            t = target(ws)
            lines.append("rem %d %s" % (ws, t))
            if "^" not in t and int(t[1:]) in live[ws]:
                live[ws].discard(int(t[1:]))
                freec[ws] += 1
        elif kind == "ead":
            lines.append("ead %d %s %d %d" % (ws, target(ws), rng.below(NCOMP), fresh()))
        elif kind == "erm":
            lines.append("erm %d %s %d" % (ws, target(ws), rng.below(NCOMP)))
        elif kind == "wrt":
            lines.append("wrt %d %s %d %d" % (ws, target(ws), rng.below(NCOMP), fresh()))
        elif kind == "erm2":
            lines.append("erm2 %d %s %d %d %d" % (ws, target(ws), rng.below(NCOMP), rng.below(NCOMP), fresh()))
        elif kind == "ead2":
            lines.append("ead2 %d %s %d %d %d %d %d" % (ws, target(ws), rng.below(NCOMP), fresh(), rng.below(NCOMP), fresh(), rng.below(2)))
        elif kind == "clr":
            lines.append("clr %d" % ws)
            freec[ws] += len(live[ws])
            live[ws] = set()
        elif kind == "shr":
            lines.append("shr %d" % ws)
        elif kind == "rsv":
            mask = rng.choice(palette) if rng.chance(1, 2) else anymask()
            desc = rng.below(2)
            cs = comps_of(mask, desc)
            desc = desc if len(cs) <= 6 else 0
            lines.append(("rsv %d %d %d %s %d" % (ws, desc, len(cs), " ".join(map(str, cs)),
                                                  rng.below(20))).replace("  ", " "))
        elif kind == "rset":
            lines.append("rset %d %d %d %d" % (ws, rng.below(4), fresh(), rng.below(3)))
        elif kind == "nqry":
            fam = EFAM[ncomp]
            k = rng.below(len(fam))
            E, S, F = fam[k]
            lines.append("nqry %d %s %d %s %s %s" % (ws, target(ws), k, views_text(E), views_text(S), filter_text(F)))
        elif kind in ("qry", "eqry", "qwr", "pqry", "pqwr"):
            fam = QFAM[ncomp]
            k = rng.below(len(fam))
            vs, f = fam[k]
            if kind == "pqry":
                lines.append("pqry %d %d %s %s" % (ws, k, views_text(vs), filter_text(f)))
            elif kind == "pqwr":
                lines.append("pqwr %d %d %d %s %s" % (ws, k, 1 + rng.below(1000), views_text(vs), filter_text(f)))
            elif kind == "qry":
                lines.append("qry %d %d %s %s %d" % (ws, k, views_text(vs), filter_text(f), rng.choice([0, 0, 1, 2, 3])))
            elif kind == "eqry":
                lines.append("eqry %d %s %d %s %s" % (ws, target(ws), k, views_text(vs), filter_text(f)))
            else:
                lines.append("qwr %d %d %d %s %s" % (ws, k, 1 + rng.below(1000), views_text(vs), filter_text(f)))
        elif kind == "cln":
            dst = rng.below(nworlds)
            if dst == ws:
                continue
            lines.append("cln %d %d" % (ws, dst))
            live[dst] = set(live[ws])
            freec[dst] = freec[ws]
            if rng.chance(2, 3):
                lines.append("eq %d %d" % (ws, dst))
        elif kind == "clf":
            others = [w for w in wss if w != ws]
            if not others:
                continue
            src = rng.choice(others)
            lines.append("clf %d %d" % (ws, src))
            live[ws] = set(live[src])
            freec[ws] = freec[src]
            if rng.chance(1, 2):
                lines.append("eq %d %d" % (ws, src))
        elif kind == "srd":
            dst = rng.below(nworlds)
            if dst == ws:
                continue
            lines.append("srd %d %d %d" % (rng.below(2), ws, dst))
            live[dst] = set(live[ws])
            freec[dst] = freec[ws]
            if rng.chance(2, 3):
                lines.append("eq %d %d" % (dst, ws))
        elif kind == "mde":
            dst = rng.below(nworlds)
            if dst == ws:
                continue

            def one_mutation():
                m = rng.weighted([("none", 2), ("dupid", 4), ("setid", 3), ("gen", 2), ("freeadd", 3), ("freedel", 3),
                                  ("freedup", 2), ("freelive", 3), ("len", 3), ("alen", 2), ("byte", 4), ("addbyte", 1),
                                  ("delbyte", 1), ("delval", 2), ("addval", 2), ("poison", 3), ("delrow", 3), ("duprow", 3),
                                  ("delarch", 2), ("duparch", 2), ("emptyarch", 3), ("freeold", 3), ("freegenmax", 2), ("idswap", 4), ("dupfree", 4)])
                a = [rng.below(8) for _ in range(4)]
                if m == "idswap":
                    return "idswap %d" % rng.choice([1, 1, 2, 3])
                if m == "setid":
                    return "setid %d %d %d %d" % (a[0], a[1], rng.below(12), rng.below(3))
                if m == "gen":
                    return "gen %d %d %d" % (a[0], a[1], 1 + rng.below(3))
                if m == "freeadd":
                    return "freeadd %d %d" % (rng.below(12), rng.below(3))
                if m == "len":
                    return "len %d" % rng.choice([-2, -1, 1, 2, 5])
                if m == "alen":
                    return "alen %d %d" % (a[0], rng.choice([-1, 1, 2]))
                if m == "byte":
                    return "byte %d %d %d" % (a[0], a[1], 1 << rng.below(8))
                if m == "emptyarch":
                    # identifier bytes of an archetype nobody stored: any byte, or a single bit (a component alone,
                    # or exactly one of the padding bits past the registry's last component)
                    def byte_():
                        return rng.below(256) if rng.chance(1, 3) else (1 << rng.below(8)) | (rng.below(32) if rng.chance(1, 4) else 0)
                    return "emptyarch %d %d" % (byte_(), byte_())
                if m in ("delrow", "duprow"):
                    return "%s %d %d %d" % (m, a[0], a[1], rng.below(2))
                return ("%s %d %d %d %d" % (m, a[0], a[1], a[2], a[3])) if m != "none" else "none"
            muts = [one_mutation()]
            if rng.chance(1, 4):
                muts.append(one_mutation())
            lines.append("mde %d %d %d %s" % (ws, dst, rng.below(2), " ; ".join(muts)))
            live[dst] = set(live[ws])
            freec[dst] = freec[ws]
        elif kind == "tde":
            dst = rng.below(nworlds)
            if dst == ws:
                continue
            muts = ["%s %d" % (rng.weighted([("dup", 3), ("del", 3), ("swap", 3), ("inc", 2), ("dupn", 6), ("deln", 4), ("incn", 3), ("dups", 3), ("dels", 3)]), rng.below(400))
                    for _ in range(1 if rng.chance(3, 4) else 2)]
            lines.append("tde %d %d %d %s" % (ws, dst, rng.below(2), " ".join(muts)))
            # whether it is accepted is not known here: later operations on dst name identifiers of ws
            live[dst] = set(live[ws])
            freec[dst] = freec[ws]
        elif kind == "eq":
            lines.append("eq %d %d" % (ws, rng.choice(wss)))
        elif kind == "drop":
            if len(wss) > 1:
                lines.append("drop %d" % ws)
                del live[ws]
                del freec[ws]
        elif kind == "new":
            free_ws = [w for w in range(nworlds) if w not in live]
            if free_ws:
                w = free_ws[0]
                lines.append("new %d %d %d %d %d" % (w, fresh(), fresh(), fresh(), fresh()))
                live[w] = set()
                freec[w] = 0
    return lines


PAR_SHAPES = {5: [0b00001, 0b00011, 0b00110, 0b01101, 0b11111, 0b10100, 0b01000], 9: None, 16: None}


def gen_par_case(rng, ncomp=5):
    """Archetypes with enough rows for rayon to split them unevenly (3, 5, 6, 7, 9, 13 rows), some lacking the
    optionally viewed component, then parallel queries (read and write) next to their sequential counterparts."""
    tok = [3000]

    def fresh():
        tok[0] += 1
        return tok[0]
    lines = ["new 0 %d %d %d %d" % (fresh(), fresh(), fresh(), fresh())]
    pal = PAR_SHAPES[ncomp] or [m for m in PALETTES[ncomp] if 0 < bin(m).count("1") <= 6]
    shapes = [rng.choice(pal) for _ in range(rng.choice([1, 2, 2, 3]))]
    issued = 0
    for m in shapes:
        cs = [k for k in range(ncomp) if m >> k & 1]
        rows = rng.choice([3, 5, 6, 7, 9, 13])
        vals = " ".join(str(fresh()) for _ in range(rows * len(cs)))
        lines.append(("ext 0 0 %d %s %d %s" % (len(cs), " ".join(map(str, cs)), rows, vals)).replace("  ", " ").strip())
        issued += rows
    fam = QFAM[ncomp]
    optq = [k for k, (vs, f) in enumerate(fam) if any(kd in ("or", "om") for kd, _ in vs)] or list(range(len(fam)))
    for _ in range(rng.choice([3, 4, 6])):
        k = rng.choice(optq) if rng.chance(3, 4) else rng.below(len(fam))
        vs, f = fam[k]
        r = rng.below(4)
        if r == 0:
            lines.append("pqwr 0 %d %d %s %s" % (k, 1 + rng.below(1000), views_text(vs), filter_text(f)))
        elif r == 1 and issued:
            lines.append("rem 0 #%d" % rng.below(issued))
        else:
            lines.append("pqry 0 %d %s %s" % (k, views_text(vs), filter_text(f)))
            if rng.chance(1, 3):
                lines.append("qry 0 %d %s %s %d" % (k, views_text(vs), filter_text(f), 0))
    return lines


def gen_cases(seed, count, max_ops):
    """About two thirds of the histories run on the 5-component registry, the rest on the 16-component one
    (`%reg 16`: LEN % 8 == 0) and on the 9-component one (`%reg 9`: LEN % 8 == 1, the last component alone in
    the second identifier byte)."""
    rng = SplitMix(seed)
    n16 = count // 3
    n9 = n16 // 2
    out = [gen_case(rng.fork(), max_ops) for _ in range(count - n16)]
    out += [["%reg 16"] + gen_case(rng.fork(), max_ops, ncomp=16) for _ in range(n16 - n9)]
    r9 = SplitMix(seed * 13 + 5)
    tail9 = [["%reg 9"] + gen_case(r9.fork(), max_ops, ncomp=9) for _ in range(n9)]
    # fault-injection cases (C17): about as many again, short
    frng = SplitMix(seed * 31 + 7)
    nf = count // 2
    out[count - n16:count - n16] = [gen_fault_case(frng.fork(), 5) for _ in range(nf - nf // 4)]
    out += [["%reg 16"] + gen_fault_case(frng.fork(), 16) for _ in range(nf // 4 - nf // 10)]
    tail9 += [["%reg 9"] + gen_fault_case(r9.fork(), 9) for _ in range(nf // 10)]
    # parallel-iteration cases (C09): archetypes long enough to be split
    prng = SplitMix(seed * 17 + 3)
    npar = max(8, count // 8)
    out += [gen_par_case(prng.fork(), 5) for _ in range(npar - npar // 3)]
    out += [["%reg 16"] + gen_par_case(prng.fork(), 16) for _ in range(npar // 3 - npar // 8)]
    tail9 += [["%reg 9"] + gen_par_case(r9.fork(), 9) for _ in range(max(1, npar // 8))]
    # copies given the same operations (C06, C10: same identifiers issued)
    mrng = SplitMix(seed * 23 + 11)
    nm = max(6, count // 12)
    mir = [gen_mirror_case(mrng.fork(), 5) for _ in range(nm - nm // 3)]
    mir += [["%reg 16"] + gen_mirror_case(mrng.fork(), 16) for _ in range(nm // 6)]
    mir += [["%reg 9"] + gen_mirror_case(mrng.fork(), 9) for _ in range(nm // 3 - nm // 6)]
    # registries are not mixed inside a shard: 5-component cases first, then 16, then 9
    r5 = [c for c in out + tail9 + mir if case_reg(c) == 5]
    r16 = [c for c in out + tail9 + mir if case_reg(c) == 16]
    r9 = [c for c in out + tail9 + mir if case_reg(c) == 9]
    return r5 + r16 + r9


def gen_mirror_case(rng, ncomp=5):
    """C06 / C10 "from then on behaves identically": a world, its clone and its serde round trip are given the SAME
    operations (`mrk 3` then the operation on each of the three); after every such group the three must have
    answered alike (same identifiers issued) and look alike (content, slots, free list)."""
    tok = [7000]

    def fresh():
        tok[0] += 1
        return tok[0]
    pal = ([rng.below(32) for _ in range(4)] + [0]) if ncomp == 5 else [rng.choice(PALETTES[ncomp]) for _ in range(4)]
    pal = [m for m in pal if m or rng.chance(1, 2)] or [1]
    lines = ["new 0 %d %d %d %d" % (fresh(), fresh(), fresh(), fresh())]
    n = 0

    def ins(ws, m, vals=None):
        cs = [k for k in range(ncomp) if m >> k & 1]
        vals = vals or [fresh() for _ in cs]
        return "ins %d 0 %d %s" % (ws, len(cs), " ".join("%d %d" % (c, v) for c, v in zip(cs, vals))), vals
    for _ in range(rng.choice([4, 6, 8, 10])):
        if n and rng.chance(1, 5):
            lines.append("rem 0 #%d" % rng.below(n))
        else:
            lines.append(ins(0, rng.choice(pal))[0])
            n += 1
    lines.append("cln 0 1")
    lines.append("srd %d 0 2" % rng.below(2))
    for _ in range(rng.choice([3, 5, 7, 9])):
        kind = rng.weighted([("clr", 3), ("ins", 6), ("rem", 4), ("shr", 1), ("ext", 2)])
        lines.append("mrk 3")
        if kind == "clr":
            lines += ["clr %d" % ws for ws in range(3)]
        elif kind == "shr":
            lines += ["shr %d" % ws for ws in range(3)]
        elif kind == "rem" and n:
            k = rng.below(n)
            lines += ["rem %d #%d" % (ws, k) for ws in range(3)]
        elif kind == "ext":
            m = rng.choice([x for x in pal if x] or [1])
            cs = [k for k in range(ncomp) if m >> k & 1]
            rows = rng.choice([1, 2, 3])
            vals = [fresh() for _ in range(rows * len(cs))]
            lines += ["ext %d 0 %d %s %d %s" % (ws, len(cs), " ".join(map(str, cs)), rows, " ".join(map(str, vals))) for ws in range(3)]
            n += 3 * rows
        else:
            m = rng.choice(pal)
            l0, vals = ins(0, m)
            lines += [l0, ins(1, m, vals)[0], ins(2, m, vals)[0]]
            n += 3
    return lines


FAULT_SHAPES = {5: [0b01101, 0b11111, 0b01001, 0b10100, 0b00101, 0b01111, 0b11000],
                16: [0x0081, 0x0180, 0x8001, 0x0300, 0x4102, 0x0A0A, 0x1030, 0x0409],
                9: [0x101, 0x180, 0x081, 0x102, 0x1C0, 0x110, 0x155]}


def gen_fault_case(rng, ncomp=5):
    """A small multi-column world (and a second one related by clone), then ONE operation during which the
    k-th user callback of some kind panics, then the automatic dump and the drop of every world."""
    tok = [5000]

    def fresh():
        tok[0] += 1
        return tok[0]
    lines = ["%fault", "new 0 %d %d %d %d" % (fresh(), fresh(), fresh(), fresh())]
    shapes = [rng.choice(FAULT_SHAPES[ncomp]) for _ in range(rng.choice([1, 2, 2, 3]))]
    n = 0
    ents = {}
    for _ in range(rng.choice([2, 3, 4, 5, 6])):
        m = rng.choice(shapes)
        cs = [k for k in range(ncomp) if m >> k & 1]
        lines.append("ins 0 0 %d %s" % (len(cs), " ".join("%d %d" % (c, fresh()) for c in cs)))
        ents[n] = m
        n += 1
    if rng.chance(1, 2) and len(ents) > 1:
        r = rng.choice(sorted(ents))
        lines.append("rem 0 #%d" % r)
        del ents[r]
    two = rng.chance(2, 3)
    ents1 = {}
    if two:
        lines.append("cln 0 1")
        ents1 = dict(ents)
        for _ in range(rng.below(4)):
            if rng.chance(1, 2):
                m = rng.choice(shapes)
                cs = [k for k in range(ncomp) if m >> k & 1]
                lines.append("ins 1 0 %d %s" % (len(cs), " ".join("%d %d" % (c, fresh()) for c in cs)))
                ents1[n] = m
                n += 1
            else:
                r = rng.below(n)
                lines.append("rem 1 #%d" % r)
                ents1.pop(r, None)
    ws = rng.below(2) if two else 0
    other = 1 - ws
    te = rng.choice(sorted(ents))
    tgt = "#%d" % te
    present = [k for k in range(ncomp) if ents[te] >> k & 1]
    comp = rng.choice(present) if rng.chance(3, 4) else rng.below(ncomp)
    cands = [("drop", "rem %d %s" % (ws, tgt)), ("drop", "clr %d" % ws), ("drop", "ead %d %s %d %d" % (ws, tgt, comp, fresh())),
             ("drop", "erm %d %s %d" % (ws, tgt, comp)), ("drop", "wrt %d %s %d %d" % (ws, tgt, comp, fresh())),
             ("drop", "erm2 %d %s %d %d %d" % (ws, tgt, comp, rng.choice(present), fresh())),
             ("drop", "erm2 %d %s %d %d %d" % (ws, tgt, comp, rng.below(ncomp), fresh())),
             ("drop", "rset %d %d %d 0" % (ws, rng.below(4), fresh())), ("drop", "drop %d" % ws),
             ("clone", "cln %d 2" % ws), ("eq", "eq %d %d" % (ws, ws)), ("dbg", "dbg %d" % ws),
             ("ser", "srd %d %d 2" % (rng.below(2), ws)), ("de", "srd %d %d 2" % (rng.below(2), ws)),
             ("de", "mde %d 2 %d poison %d %d %d" % (ws, rng.below(2), rng.below(4), rng.below(4), rng.below(4))),
             ("drop", "mde %d 2 %d dupid %d %d %d %d" % (ws, rng.below(2), rng.below(4), rng.below(4), rng.below(4), rng.below(4)))]
    if two:
        cands += [("clone", "clf %d %d" % (ws, other)), ("drop", "clf %d %d" % (ws, other)), ("clone", "clf %d %d" % (other, ws)),
                  ("eq", "eq %d %d" % (ws, other))]
    kind, op = rng.choice(cands)
    if rng.chance(1, 5) and op.split()[0] in ("cln", "clf", "eq", "dbg", "srd", "drop", "mde", "rset"):
        # the callback of a resource (cloned, compared, serialized ... after the components)
        lines.append("fault %s %d res" % (kind, rng.choice([0, 0, 1, 2, 3])))
    else:
        lines.append("fault %s %d" % (kind, rng.choice([0, 0, 1, 1, 2, 3, 4, 6, 9])))
    lines.append(op)
    # Probes after the (caught) panic: safe calls through every identifier issued so far, then a clear.  They are
    # not compared with the model (which has no post-panic state); what they show is memory evidence (ledger,
    # allocator audit, a process killed by a debug precondition check).
    opk = op.split()[0]
    if opk != "drop" and rng.chance(3, 4):
        pw = int(op.split()[1]) if opk != "srd" else ws
        if opk == "mde":
            pw = ws
        for k in range(n):
            m = ents.get(k, ents1.get(k))
            if m is None:
                continue
            c = rng.choice([x for x in range(ncomp) if m >> x & 1])
            lines.append("wrt %d #%d %d %d" % (pw, k, c, fresh()))
        if rng.chance(1, 2) and n:
            lines.append("rem %d #%d" % (pw, rng.below(n)))
        lines.append("clr %d" % pw)
    return lines


def case_reg(c):
    if c and c[0].startswith("%reg 16"):
        return 16
    return 9 if c and c[0].startswith("%reg 9") else 5


def is_fault_case(impl_case):
    return any(st["op"].startswith("fault ") for st in impl_case["steps"])


def alloc_problems(impl_case):
    """allocator audit of one case: (problems during ops, leaks at the end)"""
    probs = [(i, x) for i, st in enumerate(impl_case["steps"]) for x in st.get("xa", [])]
    probs += [(len(impl_case["steps"]), x) for x in impl_case.get("xa_end", [])]
    leaks = None
    a = impl_case.get("alloc")
    if a:
        import re as _re
        m = _re.search(r"leaks=\[(.*?)\] allocs", a)
        leaks = m.group(1).strip() if m else None
    return probs, leaks


# No class is left: F8a (remove), F8b (clear), F8c and F11 (clone_from) were repaired in /repo (2da519c, f9f2365,
# 342a817, f1ccfcd).  A fixed entry suppresses nothing: whatever a fault case shows now is a violation.
K17_CLASSES = {}


def audited_double_drops(impl_case):
    import re as _re
    aud = impl_case.get("audit") or ""
    part = aud.split("double=")[1] if "double=" in aud else ""
    return sorted("%s:%s" % (c, v) for c, v in _re.findall(r"\((\d+), (\d+)\)", part))


def fault_prediction_mismatch(impl_case, model_case):
    """C17 correspondence: for the operations the cell-level model covers, the values the model predicts to be
    dropped twice (after the injected panic and the drop of the world) are the ones the ledger saw."""
    pd = model_case.get("pd") if model_case else None
    if pd is None or pd == "?":
        return None
    steps = impl_case["steps"]
    fi = next((i for i, st in enumerate(steps) if st["op"].startswith("fault ")), None)
    if fi is None or fi + 1 >= len(steps) or not (steps[fi + 1]["ret"] or "").startswith("panic-injected"):
        want = []
    else:
        want = sorted(pd.split())
    got = audited_double_drops(impl_case)
    # a heap-owning component dropped a second time reads its token from the freed (poisoned) box:
    # the identity of the value is lost, the component and the multiplicity are not
    if any(x.split(":")[1] in ("15987178197214944733", "3722304989", "56797", "221") for x in got):
        got = sorted(x.split(":")[0] for x in got)
        want = sorted(x.split(":")[0] for x in want)
    if got != want:
        return "model predicts double drops %s after `%s`, the implementation shows %s" % (want, steps[fi + 1]["op"] if fi is not None and fi + 1 < len(steps) else "?", got)
    return None


def oracle_fault_case(impl_case):
    """C17: after a panic injected into the k-th user callback of one operation, and after dropping every world:
    no value dropped twice, no block released twice or with a wrong layout, the worlds could be dropped."""
    fails, known, corners = [], [], set()
    steps = impl_case["steps"]
    fi = next(i for i, st in enumerate(steps) if st["op"].startswith("fault "))
    kind = steps[fi]["op"].split()[1]
    target = steps[fi + 1] if fi + 1 < len(steps) else None
    if target is None:
        return {"fails": [], "known": [], "corners": set()}
    opk = target["op"].split()[0]
    opk = {"cde": "mde"}.get(opk, opk)
    fired = (target["ret"] or "").startswith("panic-injected")
    if (target["ret"] or "") == "panic":
        fails.append((fi + 1, "C17", "operation panicked on its own while a fault was armed but not fired: %s" % target["op"]))
    if fired:
        corners.add("fault:%s:%s" % (opk, kind))
    probs, leaks = alloc_problems(impl_case)
    aud = impl_case.get("audit") or ""
    dd = "double=[]" not in aud
    bad = []
    if dd:
        bad.append("a value was dropped twice: " + aud)
    for i, x in probs:
        bad.append("allocator: " + x)
    # The index structures safe calls go through unchecked (slot -> row, stored identifier -> slot, free list) must
    # agree with the storage after the panic was caught: `entry`, `remove` and `clear` index with them without a
    # bounds check, so a disagreement is freed or foreign memory touched "later".  len() is not memory-relevant:
    # a stale count after the panic is judged under C13 ("at every moment ... len() equals the number of stored
    # entities"), not under C17.
    if fired and target.get("worlds"):
        for ws_, w_ in sorted(target["worlds"].items()):
            for b_ in check_inv(w_):
                if b_.startswith("len "):
                    fails.append((fi + 1, "C13", "world %d after the caught panic injected into callback `%s` of `%s`: %s"
                                  % (ws_, kind, target["op"], b_)))
                    continue
                bad.append("world %d after the caught panic: %s" % (ws_, b_))
    if bad and fired:
        cls = K17_CLASSES.get((opk, kind))
        if cls:
            known.append((fi + 1, cls))
        else:
            fails.append((fi + 1, "C17", "panic injected into callback `%s` of `%s`: %s" % (kind, target["op"], "; ".join(bad)[:400])))
    elif bad:
        fails.append((fi + 1, "C17", "without any injected panic: %s" % "; ".join(bad)[:400]))
    return {"fails": fails, "known": known, "corners": corners}


def corpus_cases():
    d = os.path.join(VERIF, "corpus", "wh")
    out = []
    if os.path.isdir(d):
        for f in sorted(os.listdir(d)):
            if f.endswith(".ops"):
                out.append([l.strip() for l in open(os.path.join(d, f))
                            if l.strip() and not l.startswith("%") and not l.startswith("case")
                            and l.strip() != "end"])
    return out


# ------------------------------------------------------------------ running

def run_cases(cases, workdir, shards=16, tag="wh"):
    """Runs harness then model on the cases (sharded). Returns list of
    (impl_trace_path, model_trace_path, first_case_index, ncases)."""
    os.makedirs(workdir, exist_ok=True)
    model = os.path.join(EXTRACT, "wh_model")
    shards = max(1, min(shards, len(cases)))
    per = (len(cases) + shards - 1) // shards
    # contiguous chunks that never mix registries (each registry has its own harness binary)
    chunks = []
    i = 0
    while i < len(cases):
        reg = case_reg(cases[i])
        j = i
        while j < len(cases) and j - i < per and case_reg(cases[j]) == reg:
            j += 1
        chunks.append((i, j, reg))
        i = j
    procs = []
    for s, (a, b, reg) in enumerate(chunks):
        chunk = cases[a:b]
        wh = os.path.join(TARGET, "debug", REG_BIN[reg])
        ops = os.path.join(workdir, "%s.%d.ops" % (tag, s))
        with open(ops, "w") as f:
            for i, c in enumerate(chunk):
                f.write("case %d\n" % (a + i))
                f.write("\n".join(c) + "\n")
                f.write("end\n")
        impl = os.path.join(workdir, "%s.%d.impl" % (tag, s))
        mod = os.path.join(workdir, "%s.%d.model" % (tag, s))
        for stale in (impl, mod):
            if os.path.exists(stale):
                os.remove(stale)
        # the model runs on whatever trace the harness produced, also when the harness died half-way
        cmd = "VERIF_POOL=%d timeout 1200 %s %s > %s; rc=$?; timeout 1200 %s %s > %s; exit $rc" % ([1, 2, 4, 16][s % 4], wh, ops, impl, model, impl, mod)
        procs.append((subprocess.Popen(cmd, shell=True, stderr=subprocess.PIPE, text=True), impl, mod, a, len(chunk), ops))
    out = []
    for p, impl, mod, first, n, ops in procs:
        _, err = p.communicate()
        out.append({"impl": impl, "model": mod, "first": first, "n": n, "ops": ops, "rc": p.returncode,
                    "err": err[-2000:] if err else ""})
    return out


# ------------------------------------------------------------------ parsing

def parse_world_line(w, toks):
    kind = toks[0]
    rest = toks[1:]
    if kind.startswith("!"):
        w["flags"].append(" ".join(toks))
    elif kind == "len":
        w["len"] = int(rest[0])
    elif kind == "slots":
        sl = []
        for s in rest:
            p = s.split(":")
            if p[1] == "-":
                sl.append((int(p[0]), None))
            else:
                sl.append((int(p[0]), (p[1], int(p[2]))))
        w["slots"] = sl
    elif kind == "free":
        w["free"] = [int(x) for x in rest]
    elif kind == "arch":
        bits = rest[0]
        rows = []
        cur = None
        for x in rest[1:]:
            if x == "|":
                cur = None
                continue
            if x.startswith("!"):
                w["flags"].append("arch %s %s" % (bits, x))
                continue
            if cur is None:
                i, g = x.split(":")
                cur = ((int(i), int(g)), [])
                rows.append(cur)
            else:
                cur[1].append(int(x))
        w["archs"].append((bits, rows))
    elif kind == "tid":
        w["tid"] = rest
    elif kind == "foreign":
        w["foreign"] = rest
    elif kind == "res":
        w["res"] = [int(x) for x in rest]
    elif kind == "live":
        w["live"] = [tuple(int(y) for y in x.split(":")) for x in rest]


def parse_trace(path):
    """-> list of cases: {'id', 'steps': [{'op','ret','ev','worlds','raw'}], 'audit'}"""
    cases = []
    cur = None
    step = None
    for line in open(path):
        line = line.rstrip("\n")
        if line.startswith("case "):
            cur = {"id": int(line.split()[1]), "steps": [], "audit": None, "nreg": 5}
            cases.append(cur)
            step = None
        elif line.startswith("nreg "):
            if cur is not None:
                cur["nreg"] = int(line.split()[1])
        elif line.startswith("alloc "):
            if cur is not None:
                cur["alloc"] = line
        elif line.startswith("xa "):
            if step is not None:
                step.setdefault("xa", []).append(line[3:])
            elif cur is not None:
                cur.setdefault("xa_end", []).append(line[3:])
        elif line.startswith("audit"):
            if cur is not None:
                cur["audit"] = line
                step = None
        elif line.startswith("op "):
            step = {"op": " ".join(line[3:].split()), "ret": None, "ev": [], "worlds": {}, "raw": [], "xa": []}
            cur["steps"].append(step)
        elif line.startswith("pd"):
            if cur is not None:
                cur["pd"] = line[2:].strip()
        elif line.startswith("ret "):
            step["ret"] = line[4:]
        elif line.startswith("ev"):
            step["ev"] = line.split()[1:]
        elif line.startswith("w "):
            toks = line.split()
            ws = int(toks[1])
            w = step["worlds"].setdefault(ws, {"len": None, "slots": [], "free": [], "archs": [], "tid": [],
                                               "foreign": [], "res": [], "live": [], "flags": [], "lines": []})
            w["lines"].append(line)
            parse_world_line(w, toks[2:])
        if step is not None and not line.startswith("audit") and not line.startswith("alloc "):
            step["raw"].append(line)
    return cases


# ------------------------------------------------------------------ views for projection

def content_view(w):
    rows = {}
    for bits, rs in w["archs"]:
        if rs:
            rows.setdefault(bits, []).extend((tuple(i), tuple(v)) for i, v in rs)
    return (w["len"], tuple(sorted((b, tuple(r)) for b, r in rows.items())), tuple(w["live"]), tuple(w["flags"]))


def alloc_view(w):
    return (tuple(w["slots"]), tuple(w["free"]))


def struct_view(w):
    return (tuple(sorted(b for b, _ in w["archs"])), tuple(w["tid"]), tuple(w["foreign"]))


def res_view(w):
    return tuple(w["res"])


VIEWS = {"content": content_view, "alloc": alloc_view, "struct": struct_view, "res": res_view}


def project(step, views, with_ret=True, with_ev=False):
    out = []
    if with_ret:
        r = step["ret"]
        out.append(("ret", r.split()[0] if r and r.startswith("err-") else r))
    if with_ev and list(step["ev"]) != ["?"]:
        out.append(("ev", tuple(step["ev"])))
    for ws in sorted(step["worlds"]):
        for v in views:
            out.append((ws, v, VIEWS[v](step["worlds"][ws])))
    return out


def first_divergence(impl_case, model_case, views, with_ret=True, with_ev=False, op_filter=None):
    """Index of the first step whose projection differs, or None."""
    n = max(len(impl_case["steps"]), len(model_case["steps"]))
    for i in range(n):
        if i >= len(impl_case["steps"]) or i >= len(model_case["steps"]):
            return i
        a, b = impl_case["steps"][i], model_case["steps"][i]
        if a["op"].startswith("fault "):
            return None      # what follows an injected panic is judged by the C17 oracle alone
        if a["op"] != b["op"]:
            return i
        if op_filter and not op_filter(a["op"]):
            continue
        # the verdict of `==` is the business of C16 only (op_filter selects it there)
        wr = with_ret and (op_filter is not None or not a["op"].startswith("eq "))
        we = with_ev and list(a["ev"]) != ["?"] and list(b["ev"]) != ["?"]
        if project(a, views, wr, we) != project(b, views, wr, we):
            return i
    return None


# ------------------------------------------------------------------ oracles on the implementation trace

def norm_val(c, v):
    """payload normalisation of the harness types (harness/src/comps.rs)"""
    if c in (1, 9):
        return 0
    if c in (4, 5, 11, 13, 15, 102):
        return v & 0xFFFFFFFF
    if c == 7:
        return v & 0xFFFF
    if c == 8:
        return v & 0xFF
    return v


def world_map(w):
    """identifier -> {component: value} as stored (from arch lines)."""
    m = {}
    dup = []
    for bits, rows in w["archs"]:
        cs = [k for k in range(len(bits)) if bits[k] == "1"]
        for ident, vals in rows:
            if ident in m:
                dup.append(ident)
            m[ident] = dict(zip(cs, vals)) if len(vals) == len(cs) else {"!": tuple(vals)}
    return m, dup


def check_inv(w):
    """Structural invariant of C13 on an implementation dump. Returns list of failures."""
    bad = []
    if w["flags"]:
        bad.append("flags: " + "; ".join(w["flags"]))
    shapes = [b for b, _ in w["archs"]]
    if len(shapes) != len(set(shapes)):
        bad.append("two archetypes with the same component set")
    archs = {b: r for b, r in w["archs"]}
    total = 0
    seen = set()
    for bits, rows in w["archs"]:
        total += len(rows)
        for r, (ident, vals) in enumerate(rows):
            i, g = ident
            if ident in seen:
                bad.append("identifier %s stored twice" % (ident,))
            seen.add(ident)
            if i >= len(w["slots"]):
                bad.append("stored identifier %s has no slot" % (ident,))
                continue
            sg, loc = w["slots"][i]
            if sg != g or loc != (bits, r):
                bad.append("stored identifier %s at %s:%d but slot says gen=%s loc=%s" % (ident, bits, r, sg, loc))
    for i, (g, loc) in enumerate(w["slots"]):
        if loc is None:
            continue
        bits, r = loc
        if bits not in archs:
            bad.append("slot %d points to missing archetype %s" % (i, bits))
        elif r >= len(archs[bits]) or archs[bits][r][0] != (i, g):
            bad.append("slot %d (gen %d) points to %s:%d which does not hold it" % (i, g, bits, r))
    if len(w["free"]) != len(set(w["free"])):
        bad.append("free list has duplicates %s" % w["free"])
    inactive = {i for i, (g, loc) in enumerate(w["slots"]) if loc is None}
    if set(w["free"]) != inactive:
        bad.append("free list %s != inactive slots %s" % (sorted(w["free"]), sorted(inactive)))
    if w["len"] != total:
        bad.append("len %s != stored rows %d" % (w["len"], total))
    if not set(w["tid"]) <= set(shapes):
        bad.append("type-id lookup target not an own archetype: %s" % w["tid"])
    if sorted(set(w["foreign"])) != sorted(set(shapes)):
        bad.append("identifier lookup %s != archetypes %s" % (w["foreign"], sorted(shapes)))
    if set(w["live"]) - seen:
        bad.append("accepted identifiers not stored: %s" % sorted(set(w["live"]) - seen))
    return bad


def parse_op(op):
    t = op.split()
    return t


def eid(s):
    i, g = s.split(":")
    return (int(i), int(g))


def parse_views_text(s):
    if s == "-":
        return []
    out = []
    for t in s.split(";"):
        if t == "id":
            out.append(("id", -1))
        elif t.startswith("or") or t.startswith("om"):
            out.append((t[:2], int(t[2:])))
        else:
            out.append((t[0], int(t[1:])))
    return out


def parse_filter_text(s):
    pos = [0]

    def num():
        st = pos[0]
        while pos[0] < len(s) and s[pos[0]].isdigit():
            pos[0] += 1
        return int(s[st:pos[0]])

    def go():
        c = s[pos[0]]
        pos[0] += 1
        if c == "n":
            return ("n",)
        if c == "h":
            return ("h", num())
        if c == "!":
            return ("!", go())
        if c in "&|":
            pos[0] += 1
            a = go()
            pos[0] += 1
            b = go()
            pos[0] += 1
            return (c, a, b)
        if c == "v":
            pos[0] += 1
            st = pos[0]
            while s[pos[0]] != "]":
                pos[0] += 1
            vs = parse_views_text(s[st:pos[0]])
            pos[0] += 1
            return ("v", vs)
        raise ValueError(s)
    return go()


def spec_filter(f, comps):
    """The filter as the documentation states it, on the set of components an entity has."""
    if f[0] == "n":
        return True
    if f[0] == "h":
        return f[1] in comps
    if f[0] == "!":
        return not spec_filter(f[1], comps)
    if f[0] == "&":
        return spec_filter(f[1], comps) and spec_filter(f[2], comps)
    if f[0] == "|":
        return spec_filter(f[1], comps) or spec_filter(f[2], comps)
    return all(c in comps for k, c in f[1] if k in ("r", "m"))


def spec_matches(vs, f, comps):
    return all(c in comps for k, c in vs if k in ("r", "m")) and spec_filter(f, comps)


def spec_row(vs, e, cv):
    items = []
    for k, c in vs:
        if k == "id":
            items.append("%d:%d" % e)
        elif k in ("r", "m"):
            items.append("v%d" % cv[c])
        else:
            items.append("s%d" % cv[c] if c in cv else "n")
    return ",".join(items) or "_"


def parse_content(op):
    """op cde dst hr | A hex declared nrows (idx gen k v…)* | … | L len | F i:g … | R v v v v"""
    secs = [x.split() for x in op.split("|")[1:]]
    c = {"archs": [], "length": 0, "free": [], "res": [], "poison": False}
    for s_ in secs:
        if not s_:
            continue
        if s_[0] == "A":
            hexs, declared, nrows = s_[1], int(s_[2]), int(s_[3])
            by = [] if hexs == "-" else [int(hexs[2 * i:2 * i + 2], 16) for i in range(len(hexs) // 2)]
            rows = []
            p = 4
            poisoned = None
            for ri in range(nrows):
                idx, gen, k = int(s_[p]), int(s_[p + 1]), int(s_[p + 2])
                vals = []
                for j in range(k):
                    tk = s_[p + 3 + j]
                    if tk.startswith("!"):
                        poisoned = (ri, j)
                        vals.append(int(tk[1:]))
                    else:
                        vals.append(int(tk))
                rows.append(((idx, gen), vals))
                p += 3 + k
            c["archs"].append({"bytes": by, "declared": declared, "rows": rows, "poison": poisoned})
            if poisoned:
                c["poison"] = True
        elif s_[0] == "L":
            c["length"] = int(s_[1])
        elif s_[0] == "F":
            c["free"] = [eid(x) for x in s_[1:]]
        elif s_[0] == "R":
            c["res"] = [int(x) for x in s_[1:]]
    return c


def content_valid(c, n):
    """The specification of acceptable serialized content, independent of the model."""
    nb = (n + 7) // 8
    seen_shapes = set()
    for a in c["archs"]:
        if len(a["bytes"]) != nb:
            return False, "identifier of %d bytes" % len(a["bytes"])
        for k in range(n, 8 * nb):
            if a["bytes"][k // 8] >> (k % 8) & 1:
                return False, "padding bit %d set" % k
        if tuple(a["bytes"]) in seen_shapes:
            return False, "archetype listed twice"
        seen_shapes.add(tuple(a["bytes"]))
        if a["declared"] != len(a["rows"]):
            return False, "declared length %d for %d rows" % (a["declared"], len(a["rows"]))
        ncols = sum(a["bytes"][k // 8] >> (k % 8) & 1 for k in range(n))
        if any(len(v) != ncols for _, v in a["rows"]):
            return False, "row with the wrong number of values"
        if a["poison"]:
            return False, "value of the wrong type"
    ids = [i for a in c["archs"] for (i, _), _ in a["rows"]] + [i for i, _ in c["free"]]
    if len(ids) != len(set(ids)):
        return False, "slot index used twice"
    if any(i >= c["length"] or i < 0 for i in ids):
        return False, "slot index out of range"
    if set(ids) != set(range(c["length"])):
        return False, "slot index unaccounted for"
    return True, ""


class RefWorlds:
    """The reference map of C01 (plus issued-set history for C02, resources for C15),
    driven by the implementation's own return values."""

    def __init__(self):
        self.maps = {}      # ws -> {eid: {c: v}}
        self.res = {}       # ws -> [v, v]
        self.ever = {}      # ws -> set of eids ever issued in this lineage
        self.issued = []    # global, in order
        self.nreg = 5

    def apply(self, step):
        """Returns (list of property failures as (prop, msg), known_class or None)."""
        fails = []
        known = None
        t = step["op"].split()
        k = t[0]
        ret = step["ret"] or ""
        if ret == "panic" and k != "xrg":
            fails.append(("C01", "operation panicked: " + step["op"]))
            return fails, known
        if k == "mrk":
            return fails, known
        if k == "new":
            ws = int(t[1])
            self.maps[ws] = {}
            self.res[ws] = [int(t[2]), int(t[3]), norm_val(102, int(t[4])), int(t[5])]
            self.ever[ws] = set()
        elif k == "drop":
            ws = int(t[1])
            self.maps.pop(ws, None)
            self.res.pop(ws, None)
            self.ever.pop(ws, None)
        elif k == "ins":
            ws = int(t[1])
            if ws in self.maps:
                n = int(t[3])
                comps = {int(t[4 + 2 * j]): norm_val(int(t[4 + 2 * j]), int(t[5 + 2 * j])) for j in range(n)}
                if not ret.startswith("id "):
                    fails.append(("C01", "insert returned %r" % ret))
                else:
                    e = eid(ret.split()[1])
                    if e in self.ever[ws]:
                        fails.append(("C02", "insert returned identifier %s issued before in this world" % (e,)))
                    self.ever[ws].add(e)
                    self.issued.append(e)
                    self.maps[ws][e] = comps
        elif k == "ext":
            ws = int(t[1])
            if ws in self.maps:
                n = int(t[3])
                cs = [int(x) for x in t[4:4 + n]]
                rows = int(t[4 + n])
                base = 5 + n
                ids = [eid(x) for x in ret.split()[1:]] if ret.startswith("ids") else None
                if ids is None:
                    fails.append(("C01", "extend returned %r" % ret))
                elif len(ids) != rows:
                    # (the class of finding F5 — a batch of component-less entities stored nothing — was repaired in
                    #  /repo; a fixed entry suppresses nothing)
                    fails.append(("C01", "extend of %d rows returned %d identifiers" % (rows, len(ids))))
                else:
                    for r, e in enumerate(ids):
                        if e in self.ever[ws]:
                            fails.append(("C02", "extend returned identifier %s issued before in this world" % (e,)))
                        self.ever[ws].add(e)
                        self.issued.append(e)
                        self.maps[ws][e] = {c: norm_val(c, int(t[base + r * n + j])) for j, c in enumerate(cs)}
                    if len(set(ids)) != len(ids):
                        fails.append(("C02", "extend returned a repeated identifier"))
        elif k == "xrg":
            if int(t[1]) in self.maps and not (ret or "").startswith("panic"):
                fails.append(("C05", "Batch::new accepted columns of unequal length (%s): the column store now holds columns that disagree with the shared length" % ret))
                fails.append(("C18", "Batch::new accepted columns of unequal length (%s)" % ret))
                fails.append(("C04", "Batch::new accepted columns of unequal length (%s): the values beyond the shortest column are stored outside every row and never dropped, or rows are dropped that were never stored" % ret))
                fails.append(("C01", "Batch::new accepted columns of unequal length (%s)" % ret))
        elif k == "rem":
            ws = int(t[1])
            if ws in self.maps:
                self.maps[ws].pop(eid(t[2]), None)
        elif k == "clr":
            ws = int(t[1])
            if ws in self.maps:
                self.maps[ws] = {}
        elif k in ("ead", "erm", "wrt"):
            ws = int(t[1])
            if ws in self.maps:
                e = eid(t[2])
                c = int(t[3])
                present = e in self.maps[ws]
                exp = present
                if k == "ead" and present:
                    self.maps[ws][e][c] = norm_val(c, int(t[4]))
                elif k == "erm" and present:
                    self.maps[ws][e].pop(c, None)
                elif k == "wrt":
                    exp = present and c in self.maps[ws][e]
                    if exp:
                        self.maps[ws][e][c] = norm_val(c, int(t[4]))
                if ret != "bool %s" % str(exp).lower():
                    fails.append(("C02" if not present or k != "wrt" else "C03",
                                  "%s on %s: expected %s got %r" % (k, e, exp, ret)))
        elif k == "rset":
            ws = int(t[1])
            if ws in self.res:
                self.res[ws][int(t[2])] = norm_val(100 + int(t[2]), int(t[3]))
        elif k == "ead2":
            ws = int(t[1])
            if ws in self.maps:
                e = eid(t[2])
                present = e in self.maps[ws]
                if present:
                    self.maps[ws][e][int(t[3])] = norm_val(int(t[3]), int(t[4]))
                    if int(t[7]) == 1:
                        self.maps[ws][e].pop(int(t[5]), None)
                    else:
                        self.maps[ws][e][int(t[5])] = norm_val(int(t[5]), int(t[6]))
                if not ret.startswith("bool %s" % str(present).lower()):
                    fails.append(("C02", "ead2 on %s: expected %s got %r" % (e, present, ret)))
        elif k == "erm2":
            ws = int(t[1])
            if ws in self.maps:
                e = eid(t[2])
                present = e in self.maps[ws]
                if present:
                    self.maps[ws][e].pop(int(t[3]), None)
                    self.maps[ws][e][int(t[4])] = norm_val(int(t[4]), int(t[5]))
                if not ret.startswith("bool %s" % str(present).lower()):
                    fails.append(("C02", "erm2 on %s: expected %s got %r" % (e, present, ret)))
        elif k in ("qry", "pqry"):
            prop = "C03" if k == "qry" else "C09"
            ws = int(t[1])
            if ws in self.maps:
                vs, f = parse_views_text(t[3]), parse_filter_text(t[4])
                want = sorted(spec_row(vs, e, cv) for e, cv in self.maps[ws].items() if spec_matches(vs, f, cv))
                got = ret.split()[1:] if ret.startswith("rows") else None
                flags = [x for x in (got or []) if x.startswith("!")]
                got = [x for x in (got or []) if not x.startswith("!")] if got is not None else None
                if flags:
                    fails.append((prop, ("size_hint does not bracket the remaining count: %s (query %s %s)" if k == "qry" else
                                         "parallel iteration handed out aliasing mutable items: %s (query %s %s)") % (flags[0], t[3], t[4])))
                if got != want:
                    fails.append((prop, "%squery %s filter %s returned %s, the map holds %s"
                                  % ("" if k == "qry" else "parallel ", t[3], t[4], got, want)))
        elif k in ("eqry", "nqry"):
            ws = int(t[1])
            if ws in self.maps:
                e = eid(t[2])
                vs, f = (parse_views_text(t[4]), parse_filter_text(t[5])) if k == "eqry" else \
                    (parse_views_text(t[5]), parse_filter_text(t[6]))
                cv = self.maps[ws].get(e)
                want = "noentry" if cv is None else ("row " + spec_row(vs, e, cv) if spec_matches(vs, f, cv) else "nomatch")
                if ret != want:
                    fails.append(("C03", "entry query %s filter %s on %s returned %r, expected %r" % (t[4], t[5], e, ret, want)))
                    if cv is None and ret != "noentry":
                        # an identifier that is not live resolved to an entity (a reused slot, say)
                        via = "World::entry" if k == "eqry" else "query-time Entries::entry"
                        fails.append(("C02", "the dead identifier %s resolved through %s: %r" % (e, via, ret)))
                        fails.append(("C13", "the identifier %s is accepted by %s but attached to no stored entity" % (e, via)))
        elif k in ("qwr", "pqwr"):
            ws = int(t[1])
            if ws in self.maps:
                delta = int(t[3])
                vs, f = parse_views_text(t[4]), parse_filter_text(t[5])
                n = 0
                for e, cv in self.maps[ws].items():
                    if spec_matches(vs, f, cv):
                        for kd, c in vs:
                            if kd in ("m", "om") and c in cv:
                                cv[c] = norm_val(c, (cv[c] + delta) & 0xFFFFFFFFFFFFFFFF)
                                n += 1
                if ret != "n %d" % n:
                    fails.append(("C03" if k == "qwr" else "C09", "mutable query %s filter %s wrote %r components, expected %d" % (t[4], t[5], ret, n)))
        elif k == "tde":
            # (a rejected token-level mutation, or one whose source does not exist: `tde src dst hr …` as written)
            dst = int(t[2]) if len(t) > 4 else int(t[1])
            self.maps.pop(dst, None)
            self.res.pop(dst, None)
            self.ever.pop(dst, None)
            if not (ret.startswith("err") or ret in ("none", "-", "")):
                fails.append(("C11", "deserialization of a mutated token stream neither returned nor failed cleanly: %r" % ret))
        elif k == "mde":
            # the source world does not exist: the harness only clears the destination
            src, dst = int(t[1]), int(t[2])
            if src != dst:
                self.maps.pop(dst, None)
                self.res.pop(dst, None)
                self.ever.pop(dst, None)
        elif k == "cde":
            dst = int(t[1])
            content = parse_content(step["op"])
            valid, why = content_valid(content, self.nreg)
            self.maps.pop(dst, None)
            self.res.pop(dst, None)
            self.ever.pop(dst, None)
            if ret == "ok":
                if not valid:
                    fails.append(("C11", "deserialization accepted invalid content (%s): %s" % (why, step["op"][:300])))
                m = {}
                for a in content["archs"]:
                    cs = [c for c in range(self.nreg) if a["bytes"][c // 8] >> (c % 8) & 1] if len(a["bytes"]) * 8 >= self.nreg else []
                    for ident, vals in a["rows"]:
                        # every cell is sent as a u64 token; the harness types keep what fits their payload
                        m[ident] = {c: norm_val(c, v) for c, v in zip(cs, vals)}
                self.maps[dst] = m
                self.res[dst] = list(content["res"])
                self.ever[dst] = set(m) | set(content["free"])
            elif ret.startswith("err"):
                if valid:
                    fails.append(("C06", "deserialization rejected valid content: %s :: %s" % (ret, step["op"][:300])))
            else:
                fails.append(("C11", "deserialization of mutated content neither returned nor failed cleanly: %r" % ret))
        elif k in ("cln", "clf", "srd"):
            if k == "cln":
                src, dst = int(t[1]), int(t[2])
            elif k == "clf":
                dst, src = int(t[1]), int(t[2])
            else:
                src, dst = int(t[2]), int(t[3])
            if src != dst and src in self.maps and (k != "clf" or dst in self.maps):
                if k == "srd" and ret != "ok":
                    fails.append(("C06", "serialize+deserialize of a reachable world failed: %s" % ret))
                    self.maps.pop(dst, None)
                    self.res.pop(dst, None)
                    self.ever.pop(dst, None)
                else:
                    self.maps[dst] = {e: dict(c) for e, c in self.maps[src].items()}
                    self.res[dst] = list(self.res[src])
                    self.ever[dst] = set(self.ever[src])
            elif k in ("cln", "srd") and src != dst:
                self.maps.pop(dst, None)
                self.res.pop(dst, None)
                self.ever.pop(dst, None)
        return fails, known

    def compare(self, step):
        """Implementation dump vs reference map, every live world."""
        fails = []
        for ws, w in step["worlds"].items():
            if ws not in self.maps:
                fails.append(("C01", "world %d exists but reference has none" % ws))
                continue
            m, dup = world_map(w)
            ref = self.maps[ws]
            if dup:
                fails.append(("C13", "identifier stored twice: %s" % dup))
                fails.append(("C02", "one identifier attached to two rows: %s" % dup))
            ghost = sorted((set(m) & set(self.issued)) - set(w["live"]))
            if ghost:
                fails.append(("C02", "world %d: rows carry identifiers the world does not resolve: %s" % (ws, ghost[:4])))
            if m != ref:
                extra = sorted(set(m) - set(ref))
                missing = sorted(set(ref) - set(m))
                diff = sorted(e for e in set(m) & set(ref) if m[e] != ref[e])
                fails.append(("C01", "world %d differs from reference map: extra=%s missing=%s changed=%s"
                              % (ws, extra[:4], missing[:4], [(e, m[e], ref[e]) for e in diff[:3]])))
            if w["len"] != len(ref):
                fails.append(("C01", "world %d len()=%s but reference holds %d" % (ws, w["len"], len(ref))))
            live_ref = sorted(e for e in set(self.issued) if e in ref)
            if sorted(w["live"]) != live_ref:
                stale = sorted(set(w["live"]) - set(live_ref))
                dead = sorted(set(live_ref) - set(w["live"]))
                fails.append(("C02", "world %d: identifiers resolving=%s; stale-but-accepted=%s live-but-rejected=%s"
                              % (ws, len(w["live"]), stale[:4], dead[:4])))
            if w["res"] != self.res[ws]:
                fails.append(("C15", "world %d resources %s != reference %s" % (ws, w["res"], self.res[ws])))
        for ws in self.maps:
            if ws not in step["worlds"]:
                fails.append(("C01", "world %d missing from dump" % ws))
        return fails


def value_multiset(ref):
    c = Counter()
    for ws, m in ref.maps.items():
        for e, comps in m.items():
            for k, v in comps.items():
                c[(k, v)] += 1
        for i, v in enumerate(ref.res[ws]):
            c[(100 + i, v)] += 1
    return c


def world_values(ref, ws):
    c = Counter()
    if ws in ref.maps:
        for e, comps in ref.maps[ws].items():
            for k, v in comps.items():
                c[(k, v)] += 1
        for j, v in enumerate(ref.res[ws]):
            c[(100 + j, v)] += 1
    return c


def oracle_case(impl_case):
    """Run every oracle on one implementation case.
    Returns {'fails': [(step_index, prop, msg)], 'known': [(step_index, class)], 'corners': set()}"""
    if is_fault_case(impl_case):
        return oracle_fault_case(impl_case)
    ref = RefWorlds()
    ref.nreg = impl_case.get("nreg", 5)
    k11_leaked = Counter()
    fails = []
    known = []
    corners = set()
    prev_lines = {}
    prev_live = {}
    de_worlds = set()      # worlds whose content came out of the deserializer from mutated input (or were copied from one)
    mirror = None          # (index of the `mrk` step, number of copies)
    for i, st in enumerate(impl_case["steps"]):
        t = st["op"].split()
        k = t[0]
        if k == "mrk":
            mirror = (i, int(t[1]))
        elif mirror is not None and i == mirror[0] + mirror[1]:
            # the same operation was applied to copies of one world: they must have answered alike and look alike
            grp = impl_case["steps"][mirror[0] + 1:i + 1]
            wss = [int(g["op"].split()[1]) for g in grp]
            rets = [g["ret"] for g in grp]
            names = {0: "the original", 1: "its clone", 2: "its serde round trip"}
            for j_, ws_ in enumerate(wss[1:], 1):
                prop_ = "C06" if ws_ == 2 else "C10"
                if rets[j_] != rets[0]:
                    fails.append((i, prop_, "the same operation `%s` answered %r on %s and %r on %s" % (
                        " ".join(grp[0]["op"].split()[:1]), rets[0], names.get(wss[0], wss[0]), rets[j_], names.get(ws_, ws_))))
                    continue
                wa, wb = st["worlds"].get(wss[0]), st["worlds"].get(ws_)
                if wa is None or wb is None:
                    continue
                if world_map(wa)[0] != world_map(wb)[0]:
                    fails.append((i, prop_, "after the same operations %s and %s hold different entities" % (names.get(wss[0]), names.get(ws_))))
                elif [x[0] for x in wa["slots"]] != [x[0] for x in wb["slots"]] or wa["free"] != wb["free"]:
                    fails.append((i, prop_, "after the same operations (last: `%s`) %s and %s will not issue the same identifiers: "
                                  "free lists %s vs %s, generations %s vs %s" % (grp[0]["op"].split()[0], names.get(wss[0]), names.get(ws_),
                                  wa["free"], wb["free"], [x[0] for x in wa["slots"]], [x[0] for x in wb["slots"]])))
            mirror = None
        n_before = len(fails)
        de_before = set(de_worlds)
        try:
            if k == "cde":
                (de_worlds.add if (st["ret"] or "") == "ok" else de_worlds.discard)(int(t[1]))
            elif k in ("new", "drop"):
                de_worlds.discard(int(t[1]))
            elif k == "mde":
                de_worlds.discard(int(t[2]))
            elif k == "tde":
                de_worlds.discard(int(t[2]) if len(t) > 4 else int(t[1]))
            elif k == "srd":
                (de_worlds.add if int(t[2]) in de_worlds else de_worlds.discard)(int(t[3]))
            elif k == "cln":
                (de_worlds.add if int(t[1]) in de_worlds else de_worlds.discard)(int(t[2]))
            elif k == "clf":
                (de_worlds.add if int(t[2]) in de_worlds else de_worlds.discard)(int(t[1]))
        except (ValueError, IndexError):
            pass
        before = value_multiset(ref)
        src_before = None
        dst_before = None
        if k in ("cln", "clf", "srd"):
            s = int(t[1]) if k == "cln" else int(t[2])
            src_before = world_values(ref, s)
            if k == "clf":
                dst_before = world_values(ref, int(t[1]))
                if s not in ref.maps or int(t[1]) not in ref.maps:
                    src_before, dst_before = Counter(), Counter()
        # corners (measured on the implementation trace)
        if k == "rem" and prev_lines:
            ws = int(t[1])
            pw = impl_case["steps"][i - 1]["worlds"].get(ws) if i else None
            if pw:
                e = eid(t[2])
                for bits, rows in pw["archs"]:
                    for r, (ident, _) in enumerate(rows):
                        if ident == e:
                            corners.add("swap-remove-nonlast" if r < len(rows) - 1 else "remove-last")
                if e not in [x for _, rows in pw["archs"] for x, _ in rows]:
                    corners.add("stale-remove")
        if k in ("ins", "ext") and st["ret"]:
            ids = [eid(x) for x in st["ret"].split()[1:]]
            if any(g > 0 for _, g in ids):
                corners.add("slot-reuse")
            if k == "ext" and i:
                ws = int(t[1])
                pw = impl_case["steps"][i - 1]["worlds"].get(ws)
                if pw is not None:
                    f = len(pw["free"])
                    if f > 0:
                        corners.add("batch<free" if len(ids) < f else "batch=free" if len(ids) == f else "batch>free")
        if k in ("ead", "erm", "erm2", "ead2") and (st["ret"] or "").startswith("bool true"):
            corners.add("shape-change")
        if k == "shr":
            corners.add("shrink")
        if k in ("cln", "clf", "srd"):
            corners.add(k)
        overwritten = None
        if k in ("ead", "wrt") and int(t[1]) in ref.maps:
            comps_ = ref.maps[int(t[1])].get(eid(t[2]))
            if comps_ is not None and int(t[3]) in comps_:
                overwritten = (int(t[3]), comps_[int(t[3])])
        if k == "erm2" and int(t[1]) in ref.maps:
            comps_ = ref.maps[int(t[1])].get(eid(t[2]))
            if comps_ is not None and int(t[4]) in comps_:
                # c2 != c: the present value of c2 is overwritten; c2 == c: the value of c is dropped by the
                # removal and a new one (possibly with the same payload) is added
                overwritten = (int(t[4]), comps_[int(t[4])])
        ead2_drops = None
        if k == "ead2" and int(t[1]) in ref.maps:
            comps_ = ref.maps[int(t[1])].get(eid(t[2]))
            ead2_drops = Counter()
            if comps_ is not None:
                cur_ = dict(comps_)
                c1_, c2_ = int(t[3]), int(t[5])
                if c1_ in cur_:
                    ead2_drops["D:%d:%d" % (c1_, cur_[c1_])] += 1
                cur_[c1_] = norm_val(c1_, int(t[4]))
                if c2_ in cur_:
                    ead2_drops["D:%d:%d" % (c2_, cur_[c2_])] += 1
        qwr_drops = None
        if k in ("qwr", "pqwr") and int(t[1]) in ref.maps:
            qvs, qf = parse_views_text(t[4]), parse_filter_text(t[5])
            qwr_drops = Counter()
            for e_, cv_ in ref.maps[int(t[1])].items():
                if spec_matches(qvs, qf, cv_):
                    for kd_, c_ in qvs:
                        if kd_ in ("m", "om") and c_ in cv_:
                            qwr_drops["D:%d:%d" % (c_, cv_[c_])] += 1
        f, kn = ref.apply(st)
        for p, m in f:
            fails.append((i, p, m))
        if kn:
            known.append((i, kn))
        for p, m in ref.compare(st):
            fails.append((i, p, m))
        # C13: structural invariant on every world
        for ws, w in st["worlds"].items():
            for b in check_inv(w):
                fails.append((i, "C13", "world %d: %s" % (ws, b)))
        # C11: "never hands back a world that later misbehaves" — whatever goes wrong on a world that came out of
        # the deserializer from mutated input is (also) a failure of the deserializer's validation
        try:
            ws_op = int(t[1]) if k not in ("cde", "mde", "tde", "new") else None
        except (ValueError, IndexError):
            ws_op = None
        if ws_op is not None and ws_op in de_before:
            for (i_, p_, m_) in fails[n_before:]:
                if p_ in ("C01", "C02", "C13", "C03", "C05"):
                    fails.append((i_, "C11", "a world handed back by the deserializer later misbehaves: " + m_))
                    break
        # C04: ledger delta = what the reference map loses (drops), what clone/deserialize copies
        after = value_multiset(ref)
        exp = Counter()
        check_ledger = True
        if k == "cln":
            for (c, v), n in (src_before or {}).items():
                exp["C:%d:%d" % (c, v)] += n
        elif k == "clf":
            for (c, v), n in (src_before or {}).items():
                exp["C:%d:%d" % (c, v)] += n
            for (c, v), n in (dst_before or {}).items():
                exp["D:%d:%d" % (c, v)] += n
            if int(t[1]) == int(t[2]):
                exp = Counter()
        elif k == "srd":
            if st["ret"] == "ok":
                for (c, v), n in (src_before or {}).items():
                    exp["E:%d:%d" % (c, v)] += n
            else:
                check_ledger = False
        elif k in ("new", "mde"):
            check_ledger = False
        elif k == "tde":
            check_ledger = False
            got = Counter(st["ev"])
            made = Counter({x[2:]: n for x, n in got.items() if x.startswith("E:")})
            dropped = Counter({x[2:]: n for x, n in got.items() if x.startswith("D:")})
            if dropped - made:
                fails.append((i, "C11", "failed deserialization of a mutated token stream dropped values it never created or dropped them twice: %s" % sorted((dropped - made).elements())[:6]))
            if made - dropped:
                fails.append((i, "C11", "failed deserialization of a mutated token stream leaked values: %s (%s)" % (sorted((made - dropped).elements())[:6], st["ret"][:80])))
        elif k == "cde":
            content = parse_content(st["op"])
            nreg = ref.nreg
            got = Counter(st["ev"])
            if st["ret"] == "ok":
                for a in content["archs"]:
                    cs = [c for c in range(nreg) if len(a["bytes"]) * 8 > c and a["bytes"][c // 8] >> (c % 8) & 1]
                    for _, vals in a["rows"]:
                        for c, v in zip(cs, vals):
                            exp["E:%d:%d" % (c, norm_val(c, v))] += 1
                for j, v in enumerate(content["res"]):
                    exp["E:%d:%d" % (100 + j, v)] += 1
            else:
                check_ledger = False
                made = Counter({x[2:]: n for x, n in got.items() if x.startswith("E:")})
                dropped = Counter({x[2:]: n for x, n in got.items() if x.startswith("D:")})
                twice = dropped - made
                leaked = made - dropped
                if twice:
                    fails.append((i, "C11", "failed deserialization dropped values it never created or dropped them twice: %s" % sorted(twice.elements())[:6]))
                if leaked:
                    # (the class of finding F9 — cells of an incomplete row of a row-wise table — was repaired by
                    #  /repo commit 6ba6288; a fixed entry suppresses nothing)
                    fails.append((i, "C11", "failed deserialization leaked values: %s (%s)" % (sorted(leaked.elements())[:6], st["ret"][:80])))
                    fails.append((i, "C04", "failed deserialization never dropped values it created: %s" % sorted(leaked.elements())[:6]))
        elif k == "xrg":
            # every value handed to the refused batch is dropped by the unwinding, once
            n_ = int(t[3])
            cs_ = [int(x) for x in t[4:4 + n_]]
            rows_, j_, longer_ = int(t[4 + n_]), int(t[5 + n_]), int(t[6 + n_]) == 1
            p_ = 7 + n_
            if (st["ret"] or "").startswith("panic"):
                for idx_, c_ in enumerate(cs_):
                    cnt_ = rows_ + ((1 if longer_ else -1) if idx_ == j_ else 0)
                    for _x in range(cnt_):
                        exp["D:%d:%d" % (c_, norm_val(c_, int(t[p_])))] += 1
                        p_ += 1
        elif k == "ead2":
            exp = ead2_drops if ead2_drops is not None else Counter()
        elif k in ("qwr", "pqwr"):
            exp = qwr_drops if qwr_drops is not None else Counter()
        else:
            for (c, v), n in (before - after).items():
                exp["D:%d:%d" % (c, v)] += n
            if overwritten is not None and exp["D:%d:%d" % overwritten] == 0:
                exp["D:%d:%d" % overwritten] += 1     # same payload written over itself (zero-sized type)
        got = Counter(st["ev"])
        if check_ledger and got != exp:
            d1 = sorted((got - exp).elements())[:6]
            d2 = sorted((exp - got).elements())[:6]
            fails.append((i, "C04", "ledger delta differs: unexpected=%s missing=%s" % (d1, d2)))
        # C10 independence: worlds not named by the op are unchanged
        named = set()
        if k in ("cln", "clf"):
            named = {int(t[1]), int(t[2])}
        elif k == "srd":
            named = {int(t[2]), int(t[3])}
        elif k == "eq":
            named = set()
        else:
            named = {int(t[1])}
        srcs = set()
        if k == "cln":
            srcs = {int(t[1])}
        elif k == "clf":
            srcs = {int(t[2])}
        elif k == "srd":
            srcs = {int(t[2])}
        # (the `live` line lists which of the identifiers issued so far resolve: an identifier issued by this very
        #  operation in another world may coincide with one a deserialized world already holds — not a change)
        new_ids = set()
        if k in ("ins", "ext", "xrg") and (st["ret"] or "").startswith("id"):
            new_ids = {eid(x) for x in st["ret"].split()[1:]}

        def _nolive(ls):
            return [l_ for l_ in ls if l_.split()[2:3] != ["live"]]
        for ws, w in st["worlds"].items():
            if (ws not in named or ws in srcs) and ws in prev_lines:
                same = _nolive(prev_lines[ws]) == _nolive(w["lines"]) and \
                    (set(w["live"]) - new_ids) == (prev_live.get(ws, set()) - new_ids)
                if not same:
                    fails.append((i, "C10", "world %d changed by an operation on another world: %s" % (ws, st["op"])))
        # C10 content: destination equals source after cln/clf
        if k in ("cln", "clf"):
            s, d = (int(t[1]), int(t[2])) if k == "cln" else (int(t[2]), int(t[1]))
            if s in st["worlds"] and d in st["worlds"] and s != d:
                a, b = st["worlds"][s], st["worlds"][d]
                if content_view(a) != content_view(b) or alloc_view(a) != alloc_view(b) or a["res"] != b["res"]:
                    fails.append((i, "C10", "destination differs from source after %s" % st["op"]))
        if k == "srd" and st["ret"] == "ok":
            s, d = int(t[2]), int(t[3])
            if s in st["worlds"] and d in st["worlds"] and s != d:
                a, b = st["worlds"][s], st["worlds"][d]
                if content_view(a) != content_view(b) or alloc_view(a) != alloc_view(b) or a["res"] != b["res"]:
                    fails.append((i, "C06", "deserialized world differs from the original after %s" % st["op"]))
        # C16: equality
        if k == "eq" and st["ret"] and st["ret"].startswith("bool"):
            x, y = st["ret"].split()[1:3]
            a, b = int(t[1]), int(t[2])
            if x != y:
                fails.append((i, "C16", "equality not symmetric: %s" % st["ret"]))
            if a in st["worlds"] and b in st["worlds"]:
                wa, wb = st["worlds"][a], st["worlds"][b]
                ma, _ = world_map(wa)
                mb, _ = world_map(wb)
                same_content = ma == mb and wa["res"] == wb["res"]
                if x == "true" and not same_content:
                    fails.append((i, "C16", "worlds compare equal but hold different content"))
                if a == b and x != "true":
                    fails.append((i, "C16", "world not equal to itself"))
                if i and x != "true":
                    po = impl_case["steps"][i - 1]["op"].split()
                    if po[0] in ("cln", "srd", "clf") and impl_case["steps"][i - 1]["ret"] in ("ok", "none"):
                        pa = {int(po[1]), int(po[2])} if po[0] != "srd" else {int(po[2]), int(po[3])}
                        if pa == {a, b} and po[0] != "clf":
                            fails.append((i, "C16", "copy made by %s does not compare equal to its source" % po[0]))
                            # the properties about the copies say so themselves: "clone() yields a world equal to the
                            # original" (C10), "yields a world that compares equal to the original" (C06)
                            fails.append((i, "C10" if po[0] == "cln" else "C06",
                                          "the copy made by %s does not compare equal to its source (%s)" % (po[0], st["ret"])))
        prev_lines = {ws: w["lines"] for ws, w in st["worlds"].items()}
        prev_live = {ws: set(w["live"]) for ws, w in st["worlds"].items()}
    if impl_case["audit"] is not None and impl_case["audit"].strip() != "audit live=[] double=[]":
        import re as _re
        aud = impl_case["audit"]
        live = Counter()
        for c_, v_, n_ in _re.findall(r"\(\((\d+), (\d+)\), (-?\d+)\)", aud.split("double=")[0]):
            live["%s:%s" % (c_, v_)] += int(n_)
        if True:
            fails.append((len(impl_case["steps"]), "C04", "end-of-case ledger audit: " + aud))
    # C05: allocator audit (layouts, double/invalid frees during the case; every library block returned at the end)
    probs, leaks = alloc_problems(impl_case)
    for i_, x_ in probs:
        fails.append((i_, "C05", "allocator audit: " + x_))
    if leaks:
        fails.append((len(impl_case["steps"]), "C05", "memory obtained during the case was not returned after every world was dropped: blocks (size, align) = [%s]" % leaks[:300]))
    return {"fails": fails, "known": known, "corners": corners}


# ------------------------------------------------------------------ engine with cache

def safe_oracle_case(c):
    """oracle_case, but an implementation trace the oracle cannot digest (e.g. after a panic
    inside the library left a world half-updated) is a failed case for every property served,
    not an internal error of the driver."""
    try:
        return oracle_case(c)
    except Exception as e:  # noqa: BLE001
        import traceback
        si = 0
        for i, st in enumerate(c.get("steps", [])):
            if st.get("ret") == "panic" or any(any("dump-panicked" in f for f in w.get("flags", [])) for w in st.get("worlds", {}).values()):
                si = i
                break
        else:
            si = max(0, len(c.get("steps", [])) - 1)
        return {"fails": [(si, "*", "implementation trace not interpretable by the oracle (%s: %s) %s"
                           % (type(e).__name__, e, traceback.format_exc().strip().split("\n")[-3:]))],
                "known": [], "corners": set()}


def engine(seed, tier):
    """One run at a time per (seed, tier): checks of different properties started together share the
    run (the first computes it, the others find it in the cache) instead of sharing a work directory."""
    from common import Lock
    with Lock("wh-run-%s-%s" % (seed, tier)):
        return _engine(seed, tier)


def _engine(seed, tier):
    """Run (or fetch from cache) the world-history run. Returns dict with
    'cases' (ops), 'impl' & 'model' parsed traces, 'oracle' results, stats."""
    import pickle
    count, max_ops = (320, 60) if tier == "quick" else (6000, 220)
    build_extract()
    err = build_harness(["wh", "wh9", "wh16"])
    if err:
        raise Infra("harness does not build against /repo:\n" + err[-3000:])
    key = "%s-%s-%s-%s" % (repo_hash()[:16], verif_hash()[:16], seed, tier)
    os.makedirs(CACHE, exist_ok=True)
    cpath = os.path.join(CACHE, "wh-" + key + ".pickle")
    if os.path.exists(cpath):
        try:
            with open(cpath, "rb") as f:
                r = pickle.load(f)
            r["cached"] = True
            return r
        except Exception:
            pass
    t0 = time.time()
    corpus = corpus_cases()
    cases = corpus + gen_cases(int(seed), count, max_ops)
    workdir = os.path.join(BUILD, "run", "wh-%s-%s" % (seed, tier))
    shards = run_cases(cases, workdir)
    impl, model = [], []
    for s in shards:
        if s["rc"] != 0:
            # a crashed harness is an observation, not an infrastructure failure
            pass
        impl += parse_trace(s["impl"]) if os.path.exists(s["impl"]) else []
        model += parse_trace(s["model"]) if os.path.exists(s["model"]) else []
    oracle = [safe_oracle_case(c) for c in impl]
    opk = Counter()
    lens = []
    for c in cases:
        lens.append(len(c))
        for l in c:
            opk[l.split()[0]] += 1
    r = {"cases": cases, "impl": impl, "model": model, "oracle": oracle, "shards": shards,
         "ncorpus": len(corpus), "opkinds": dict(opk), "lens": lens, "wall": time.time() - t0, "cached": False,
         "workdir": workdir}
    with open(cpath, "wb") as f:
        pickle.dump(r, f)
    # keep the cache small
    olds = sorted((os.path.getmtime(os.path.join(CACHE, x)), x) for x in os.listdir(CACHE))
    for _, x in olds[:-6]:
        os.remove(os.path.join(CACHE, x))
    return r
